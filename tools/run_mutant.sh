#!/bin/sh
# usage: run_mutant.sh <patch.diff> <prop> [tier]
# Applies the patch to /repo's working tree, runs the property's check, reverts the tree.
# Prints the check's exit code; exit 0 of THIS script means "caught" (check exited 1).
set -u
PATCH=$1; PROP=$2; TIER=${3:-quick}
cd /repo || exit 2
if [ -n "$(git status --porcelain)" ]; then echo "repo tree not clean" >&2; exit 2; fi
git apply "$PATCH" 2>/dev/null || git apply -3 "$PATCH" || { echo "patch does not apply" >&2; git checkout -- . ; exit 2; }
cd /verif
# FAST=1: each worker stops after its first minimised violation (enough for "caught")
if [ -n "${FAST:-}" ]; then export VERIF_STOP_AT_FIRST=1; fi
VERIF_NO_EVIDENCE=1 VERIF_MIN_BUDGET=${VERIF_MIN_BUDGET:-20} ./check "$PROP" "$TIER" > /verif/target/run_mutant.$$.log 2>&1
RC=$?
git -C /repo reset -q --hard
grep -E "violation class|quick:|thorough:|harness" /verif/target/run_mutant.$$.log | head -12
grep -m3 "^VIOLATION" /verif/target/run_mutant.$$.log
rm -f /verif/target/run_mutant.$$.log
echo "check exit code: $RC"
[ "$RC" = 1 ]
