#!/bin/sh
# usage: confirm_mutant2.sh <id>   (round-2 layout: /tmp/mut-<id>/OUT/meta.json has demo_command)
ID=$1
WT=/root/mut/mut-$ID
cd $WT || exit 2
CMD=$(python3 -c "import json;print(json.load(open('OUT/meta.json'))['demo_command'])")
cp OUT/patch.diff /root/mut/confirm-$ID.patch
git checkout -q -- crates 2>/dev/null
# demonstration files the agent may have placed under crates/ are re-created from OUT by its command or kept as untracked
git apply --check /root/mut/confirm-$ID.patch || { echo "RESULT $ID: patch does not apply at HEAD"; exit 1; }
cargo build --offline -q 2>/dev/null || { echo "RESULT $ID: clean build failed"; exit 1; }
( sh -c "$CMD" ) > /root/mut/confirm-$ID.without.log 2>&1; RC_WITHOUT=$?
git apply /root/mut/confirm-$ID.patch
cargo build --offline -q 2>/dev/null || { echo "RESULT $ID: build with change failed"; exit 1; }
( sh -c "$CMD" ) > /root/mut/confirm-$ID.with.log 2>&1; RC_WITH=$?
# the 90 existing tests, with the change, without any demonstration test files
UNTRACKED=$(git ls-files --others --exclude-standard crates | tr '\n' ' ')
mkdir -p /root/mut/confirm-$ID.stash; for f in $UNTRACKED; do mkdir -p /root/mut/confirm-$ID.stash/$(dirname $f); mv $f /root/mut/confirm-$ID.stash/$f; done
TESTS=$(cargo nextest run --workspace --offline 2>&1 | grep -E "Summary" | tail -1)
for f in $UNTRACKED; do mv /root/mut/confirm-$ID.stash/$f $f; done; rm -rf /root/mut/confirm-$ID.stash
git checkout -q -- crates
echo "RESULT $ID: cmd[$CMD] tests[$TESTS] demo_without_rc=$RC_WITHOUT demo_with_rc=$RC_WITH"
