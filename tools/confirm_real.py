#!/usr/bin/env python3
"""Triage tool (NOT a registered check): drive the real, unhooked tablegen-lsp binary over
stdio on real threads to confirm that a hang found in simulation exists in the shipped server.

usage: confirm_real.py <path-to-lsp-binary> <scenario> [timeout_s]
scenarios:
  lockorder  didOpen immediately followed by didChange, then a request
  klimit     two requests back to back (run under `taskset -c 0` so that
             available_parallelism() == 1 and the ConcurrencyLayer limit is 1)
  control    didOpen then one request
  two-changes  a didChange with two full-text content changes (the second is the final text)
  defset-include  a.td has `defset list<B> Xs = { include "inc.td" }`; the outline of a.td must
             only carry ranges that denote, in a.td, the name they are labelled with
  dotdot     a.td contains `include "sub/../a.td"` (a self-include spelled through ".."),
             sub/ exists; didOpen a.td then one request
Prints ANSWERED or HUNG.
"""
import json, os, subprocess, sys, tempfile, threading, time

def frame(obj):
    b = json.dumps(obj).encode()
    return b"Content-Length: %d\r\n\r\n" % len(b) + b

def main():
    binary, scenario = sys.argv[1], sys.argv[2]
    timeout = float(sys.argv[3]) if len(sys.argv) > 3 else 20.0
    d = tempfile.mkdtemp(prefix="confirm_real_")
    open(os.path.join(d, "b.td"), "w").write("class B;\n")
    uri = "file://" + os.path.join(d, "a.td")
    text1 = 'include "b.td"\nclass A : B;\n'
    text2 = 'include "b.td"\nclass A2 : B;\n'
    p = subprocess.Popen([binary], stdin=subprocess.PIPE, stdout=subprocess.PIPE, stderr=subprocess.DEVNULL)
    got = {}
    def reader():
        buf = b""
        while True:
            chunk = p.stdout.read1(65536)
            if not chunk:
                return
            buf += chunk
            while True:
                i = buf.find(b"\r\n\r\n")
                if i < 0:
                    break
                n = int([l for l in buf[:i].split(b"\r\n") if l.lower().startswith(b"content-length")][0].split(b":")[1])
                if len(buf) < i + 4 + n:
                    break
                msg = json.loads(buf[i + 4:i + 4 + n]); buf = buf[i + 4 + n:]
                if "id" in msg and "method" not in msg:
                    got[msg["id"]] = msg
    threading.Thread(target=reader, daemon=True).start()
    def send(o):
        p.stdin.write(frame(o)); p.stdin.flush()
    send({"jsonrpc": "2.0", "id": 1, "method": "initialize", "params": {"processId": None, "rootUri": None, "capabilities": {}}})
    t0 = time.time()
    while 1 not in got and time.time() - t0 < 5:
        time.sleep(0.01)
    send({"jsonrpc": "2.0", "method": "initialized", "params": {}})
    open_ = {"jsonrpc": "2.0", "method": "textDocument/didOpen", "params": {"textDocument": {"uri": uri, "languageId": "tablegen", "version": 1, "text": text1}}}
    change = {"jsonrpc": "2.0", "method": "textDocument/didChange", "params": {"textDocument": {"uri": uri, "version": 2}, "contentChanges": [{"text": text2}]}}
    sym = lambda i: {"jsonrpc": "2.0", "id": i, "method": "textDocument/documentSymbol", "params": {"textDocument": {"uri": uri}}}
    wait_for = []
    if scenario == "two-changes":
        # one didChange with two full-text content changes: the document's text is the second
        ch = {"jsonrpc": "2.0", "method": "textDocument/didChange", "params": {"textDocument": {"uri": uri, "version": 2}, "contentChanges": [{"text": "class First;\n"}, {"text": "class Second;\n"}]}}
        open_["params"]["textDocument"]["text"] = "class Zero;\n"
        p.stdin.write(frame(open_) + frame(ch) + frame(sym(2))); p.stdin.flush()
        t0 = time.time()
        while 2 not in got and time.time() - t0 < timeout:
            time.sleep(0.05)
        names = [s_["name"] for s_ in (got.get(2, {}).get("result") or [])]
        ok = names == ["Second"]
        print("outline after the two-change notification: %s (%s)" % (names, "the last change counts: ok" if ok else "WRONG, the document's text is `class Second;`"))
        p.kill()
        import shutil; shutil.rmtree(d, ignore_errors=True)
        return 0 if ok else 1
    if scenario == "defset-include":
        open(os.path.join(d, "inc.td"), "w").write("\n\n\n\n      def Deep : B;\n")
        text = 'class B;\ndefset list<B> Xs = {\n  include "inc.td"\n  def Near : B;\n}\n'
        open_["params"]["textDocument"]["text"] = text
        p.stdin.write(frame(open_) + frame(sym(2))); p.stdin.flush()
        t0 = time.time()
        while 2 not in got and time.time() - t0 < timeout:
            time.sleep(0.05)
        lines = text.split("\n")
        bad = []
        def walk(s_):
            r = s_["selectionRange"]
            l = lines[r["start"]["line"]] if r["start"]["line"] < len(lines) else None
            t = l[r["start"]["character"]:r["end"]["character"]] if l is not None and r["start"]["line"] == r["end"]["line"] else None
            print("  symbol %-6s at %d:%d-%d:%d denotes %r" % (s_["name"], r["start"]["line"], r["start"]["character"], r["end"]["line"], r["end"]["character"], t))
            if t != s_["name"]:
                bad.append(s_["name"])
            for c in s_.get("children") or []:
                walk(c)
        for s_ in got.get(2, {}).get("result") or []:
            walk(s_)
        print("WRONG: ranges of %s do not denote those names in a.td" % bad if bad else "ok")
        p.kill()
        import shutil; shutil.rmtree(d, ignore_errors=True)
        return 1 if bad else 0
    if scenario == "dotdot-buffer":
        # b.td is open with a buffer that differs from disk; a.td reaches it through ".."
        os.makedirs(os.path.join(d, "sub"), exist_ok=True)
        open(os.path.join(d, "b.td"), "w").write("class OnDisk;\n")
        uri_b = "file://" + os.path.join(d, "b.td")
        open_b = {"jsonrpc": "2.0", "method": "textDocument/didOpen", "params": {"textDocument": {"uri": uri_b, "languageId": "tablegen", "version": 1, "text": "class InBuffer;\n"}}}
        ta = 'include "sub/../b.td"\ndef X : InBuffer;\n'
        open_["params"]["textDocument"]["text"] = ta
        defn = {"jsonrpc": "2.0", "id": 2, "method": "textDocument/definition", "params": {"textDocument": {"uri": uri}, "position": {"line": 1, "character": 10}}}
        p.stdin.write(frame(open_b) + frame(open_) + frame(defn)); p.stdin.flush()
        t0 = time.time()
        while 2 not in got and time.time() - t0 < timeout:
            time.sleep(0.05)
        res = got.get(2, {}).get("result")
        ok = res is not None
        print("BUFFER USED (definition of InBuffer found: %s)" % json.dumps(res) if ok else "DISK USED INSTEAD OF THE OPEN BUFFER (definition of InBuffer: null)")
        p.kill()
        import shutil; shutil.rmtree(d, ignore_errors=True)
        return 0 if ok else 1
    if scenario == "dotdot":
        os.makedirs(os.path.join(d, "sub"), exist_ok=True)
        t = 'include "sub/../a.td"\nclass A;\n'
        open(os.path.join(d, "a.td"), "w").write(t)
        open_["params"]["textDocument"]["text"] = t
        p.stdin.write(frame(open_) + frame(sym(2))); p.stdin.flush(); wait_for = [2]
    elif scenario == "lockorder":
        p.stdin.write(frame(open_) + frame(change) + frame(sym(2))); p.stdin.flush(); wait_for = [2]
    elif scenario == "klimit":
        p.stdin.write(frame(open_) + frame(sym(2)) + frame(sym(3)) + frame(sym(4))); p.stdin.flush(); wait_for = [2, 3, 4]
    else:
        p.stdin.write(frame(open_) + frame(sym(2))); p.stdin.flush(); wait_for = [2]
    t0 = time.time()
    while not all(w in got for w in wait_for) and time.time() - t0 < timeout:
        time.sleep(0.05)
    ok = all(w in got for w in wait_for)
    print("ANSWERED" if ok else "HUNG (no response to %s within %.0fs)" % ([w for w in wait_for if w not in got], timeout))
    p.kill()
    import shutil; shutil.rmtree(d, ignore_errors=True)
    return 0 if ok else 1

sys.exit(main())
