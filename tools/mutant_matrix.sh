#!/bin/sh
# Runs every seeded change under /verif/seeded against the quick check of the property it
# breaks, and the unchanged tree against all checks. Writes /verif/seeded/RESULTS.md.
# (A development tool; not a registered check.)
cd /verif
OUT=/verif/seeded/RESULTS.md
echo "| seeded change | property | quick check | violation classes reported |" > $OUT
echo "|---|---|---|---|" >> $OUT
for d in seeded/*/; do
    id=$(basename $d)
    [ -f $d/patch.diff ] || continue
    if grep -q '"superseded"' $d/meta.json; then echo "| $id | $(python3 -c "import json;print(json.load(open('$d/meta.json'))['property'])") | superseded (see meta.json) | |" >> $OUT; continue; fi
    prop=$(python3 -c "import json;print(json.load(open('$d/meta.json'))['property'])")
    log=/verif/target/matrix-$id.log
    VERIF_WATCHDOG_S=${VERIF_WATCHDOG_S:-15} timeout 1200 tools/run_mutant.sh /verif/$d/patch.diff $prop > $log 2>&1
    rc=$?
    git -C /repo reset -q --hard
    nviol=$(grep -oE "[0-9]+ violation\(s\)" $log | head -1)
    classes=$(grep "violation class" $log | sed 's/ *violation class //; s/: [0-9]* run(s)//' | sed 's/ (.*)//' | sort -u | tr '\n' ',' | sed 's/,$//; s/,/, /g')
    if [ $rc = 0 ]; then verdict="caught (exit 1; $nviol in the quick run)"; else verdict="**MISSED** ($(grep 'check exit code' $log))"; fi
    echo "| $id | $prop | $verdict | $classes |" >> $OUT
    echo "$id $prop rc=$rc"
    rm -f $log
done
rm -f /verif/replays/*.json
