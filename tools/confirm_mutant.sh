#!/bin/sh
# usage: confirm_mutant.sh <id> <demo command...>
# Confirms, in the scratch worktree /tmp/mut-<id>, that the seeded change applies at /repo's
# HEAD, builds, passes the 90 tests, and that its demonstration fails with it and passes without.
ID=$1; shift
WT=/tmp/mut-$ID
cd $WT || exit 2
git checkout -q -- crates 2>/dev/null
git clean -fdq crates 2>/dev/null
HEADREPO=$(git -C /repo rev-parse HEAD); HEADWT=$(git rev-parse HEAD)
echo "worktree HEAD $HEADWT repo HEAD $HEADREPO"
git apply --check /verif/seeded/$ID/patch.diff || { echo "RESULT $ID: patch does not apply"; exit 1; }
# without the change
cargo build --offline -q 2>/dev/null || { echo "RESULT $ID: clean build failed"; exit 1; }
( "$@" ) > /tmp/confirm-$ID.without.log 2>&1; RC_WITHOUT=$?
# with the change
git apply /verif/seeded/$ID/patch.diff
cargo build --offline -q 2>/dev/null || { echo "RESULT $ID: build with change failed"; exit 1; }
TESTS=$(cargo nextest run --workspace --offline 2>&1 | grep -E "Summary" | tail -1)
( "$@" ) > /tmp/confirm-$ID.with.log 2>&1; RC_WITH=$?
git checkout -q -- crates; git clean -fdq crates
echo "RESULT $ID: tests[$TESTS] demo_without_rc=$RC_WITHOUT demo_with_rc=$RC_WITH"
