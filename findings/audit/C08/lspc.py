"""Minimal LSP stdio client for driving target/debug/lsp (used by the demo scripts)."""
import json
import os
import queue
import subprocess
import threading
import time
from pathlib import Path
from urllib.parse import quote

ROOT = Path(__file__).resolve().parent.parent
BIN = ROOT / "target" / "debug" / "lsp"


def uri_of(path):
    return "file://" + quote(str(path))


class Client:
    def __init__(self, env=None, stderr_path=None):
        e = dict(os.environ)
        e.pop("INCLUDE_DIR", None)
        if env:
            e.update(env)
        self._errf = open(stderr_path, "wb") if stderr_path else subprocess.DEVNULL
        self.p = subprocess.Popen(
            [str(BIN)], stdin=subprocess.PIPE, stdout=subprocess.PIPE, stderr=self._errf, env=e
        )
        self.q = queue.Queue()
        self.msgs = []
        self.next_id = 1
        self.responses = {}
        self.notifs = []
        self.t = threading.Thread(target=self._reader, daemon=True)
        self.t.start()

    def _reader(self):
        f = self.p.stdout
        try:
            while True:
                length = None
                while True:
                    line = f.readline()
                    if not line:
                        self.q.put(None)
                        return
                    line = line.strip()
                    if not line:
                        break
                    if line.lower().startswith(b"content-length:"):
                        length = int(line.split(b":")[1])
                body = b""
                while len(body) < length:
                    chunk = f.read(length - len(body))
                    if not chunk:
                        self.q.put(None)
                        return
                    body += chunk
                self.q.put(json.loads(body))
        except Exception:
            self.q.put(None)

    def send_raw(self, obj):
        data = json.dumps(obj).encode()
        try:
            self.p.stdin.write(b"Content-Length: %d\r\n\r\n" % len(data) + data)
            self.p.stdin.flush()
            return True
        except (BrokenPipeError, OSError):
            return False

    def notify(self, method, params):
        return self.send_raw({"jsonrpc": "2.0", "method": method, "params": params})

    def request_async(self, method, params):
        i = self.next_id
        self.next_id += 1
        self.send_raw({"jsonrpc": "2.0", "id": i, "method": method, "params": params})
        return i

    def pump(self, timeout):
        """Read one message (or None on timeout / 'EOF' on end of stream)."""
        try:
            m = self.q.get(timeout=timeout)
        except queue.Empty:
            return None
        if m is None:
            self.q.put(None)
            return "EOF"
        if "id" in m and "method" not in m:
            self.responses[m["id"]] = m
        else:
            self.notifs.append(m)
        return m

    def wait_response(self, i, timeout=10.0):
        """Returns the response dict, or 'TIMEOUT', or 'EOF'."""
        end = time.time() + timeout
        while i not in self.responses:
            left = end - time.time()
            if left <= 0:
                return "TIMEOUT"
            m = self.pump(left)
            if m == "EOF":
                return "EOF"
        return self.responses[i]

    def request(self, method, params, timeout=10.0):
        return self.wait_response(self.request_async(method, params), timeout)

    def drain(self, quiet=0.3, maxwait=5.0):
        end = time.time() + maxwait
        while time.time() < end:
            m = self.pump(quiet)
            if m is None or m == "EOF":
                return

    def initialize(self):
        r = self.request(
            "initialize", {"processId": None, "rootUri": None, "capabilities": {}}
        )
        self.notify("initialized", {})
        return r

    def did_open(self, uri, text, version=1):
        return self.notify(
            "textDocument/didOpen",
            {"textDocument": {"uri": uri, "languageId": "tablegen", "version": version, "text": text}},
        )

    def did_change(self, uri, text, version=2):
        return self.notify(
            "textDocument/didChange",
            {"textDocument": {"uri": uri, "version": version}, "contentChanges": [{"text": text}]},
        )

    def did_close(self, uri):
        return self.notify("textDocument/didClose", {"textDocument": {"uri": uri}})

    def hover(self, uri, line, ch, timeout=10.0):
        return self.request(
            "textDocument/hover",
            {"textDocument": {"uri": uri}, "position": {"line": line, "character": ch}},
            timeout,
        )

    def symbols(self, uri, timeout=10.0):
        return self.request("textDocument/documentSymbol", {"textDocument": {"uri": uri}}, timeout)

    def alive(self):
        return self.p.poll() is None

    def exit_code(self, wait=2.0):
        try:
            return self.p.wait(timeout=wait)
        except subprocess.TimeoutExpired:
            return None

    def kill(self):
        try:
            self.p.kill()
        except Exception:
            pass
        try:
            self.p.wait(timeout=5)
        except Exception:
            pass
        if self._errf not in (None, subprocess.DEVNULL):
            self._errf.close()
