#!/usr/bin/env python3
"""C08 counterexample 3: a notification the server has no handler for ends the main loop.

async_lsp::router::Router answers an unhandled notification whose method does not start with
"$/" with ControlFlow::Break(Err(Routing)); Server::new_router (crates/lsp/src/server.rs:52-73)
installs no fallback (`unhandled_notification`), and main.rs:39 unwraps the error.  So a
perfectly legal `workspace/didChangeConfiguration` (clients send it without any registration)
kills the server; requests in flight and everything after it stay unanswered.

exit 1 = violation observed, exit 0 = not observed.
"""
import sys
from pathlib import Path

sys.path.insert(0, str(Path(__file__).resolve().parent))
from crashlib import run


def main():
    ok, _, _ = run("control ($/setTrace, ignored)", lambda c, d: c.notify("$/setTrace", {"value": "off"}))
    if not ok:
        print("control failed: harness problem")
        return 0
    ok, code, _ = run(
        "workspace/didChangeConfiguration",
        lambda c, d: c.notify("workspace/didChangeConfiguration", {"settings": {}}),
    )
    if not ok:
        print("VIOLATION: server gone (exit code %s); later notifications/requests are never processed" % code)
        return 1
    print("no violation")
    return 0


if __name__ == "__main__":
    sys.exit(main())
