#!/usr/bin/env python3
"""C08 counterexample 6: a class that names itself as parent aborts the whole server.

ast::Class::index registers the class before it indexes its parent list
(crates/ide/src/index.rs:157-166), so `class A : A` makes A its own parent.  The next field
lookup (Record::find_field, crates/ide/src/symbol_map/record.rs:62-77, also is_subclass_of:81)
recurses without end, the worker overflows its stack and the runtime aborts the process
(SIGABRT).  Such a text is a normal transient state while a class header is being typed.

exit 1 = violation observed, exit 0 = not observed.
"""
import sys
import time
from pathlib import Path

sys.path.insert(0, str(Path(__file__).resolve().parent))
from crashlib import run, uri_of


def opener(text):
    def act(c, d):
        c.did_open(uri_of(d / "a.td"), text)
        time.sleep(1.5)

    return act


def main():
    ok, _, _ = run("control (class A : B)", opener("class B { int x; }\nclass A : B { let x = 1; }\n"))
    if not ok:
        print("control failed: harness problem")
        return 0
    ok, code, _ = run("class A : A { let x = 1; }", opener("class A : A { let x = 1; }\n"))
    if not ok:
        print("VIOLATION: the server is gone (exit code %s)" % code)
        return 1
    print("no violation")
    return 0


if __name__ == "__main__":
    sys.exit(main())
