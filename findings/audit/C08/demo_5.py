#!/usr/bin/env python3
"""C08 counterexample 5: a panic in a worker task is re-raised on the main loop.

Every request handler ends with `Box::pin(async move { task.await.unwrap() })`
(crates/lsp/src/server.rs:133,153,177,197,218,239,260,280).  The future is polled by the main
loop, so the JoinError of a panicked worker becomes a panic of the main loop and the process
exits (101).  One legal request that panics in the worker: textDocument/inlayHint with an
empty range (start == end) on a document that has at least one symbol --
SymbolMap::iter_symbols_in_range (crates/ide/src/symbol_map.rs:193) passes the empty range to
iset::IntervalMap::iter, which panics "Interval is empty".

exit 1 = violation observed, exit 0 = not observed.
"""
import sys
from pathlib import Path

sys.path.insert(0, str(Path(__file__).resolve().parent))
from crashlib import run, uri_of

TEXT = "class A<int x>;\ndef d : A<1>;\n"


def hint(c, d, rng):
    u = uri_of(d / "a.td")
    c.did_open(u, TEXT)
    r = c.request("textDocument/inlayHint", {"textDocument": {"uri": u}, "range": rng}, 5)
    print("      inlayHint ->", r if not isinstance(r, dict) else r.get("result", r.get("error")))


def main():
    full = {"start": {"line": 0, "character": 0}, "end": {"line": 2, "character": 0}}
    empty = {"start": {"line": 1, "character": 3}, "end": {"line": 1, "character": 3}}
    ok, _, _ = run("control (inlayHint, whole document)", lambda c, d: hint(c, d, full))
    if not ok:
        print("control failed: harness problem")
        return 0
    ok, code, _ = run("inlayHint, empty range 1:3-1:3", lambda c, d: hint(c, d, empty))
    if not ok:
        print("VIOLATION: the request got no response and the server is gone (exit code %s)" % code)
        return 1
    print("no violation")
    return 0


if __name__ == "__main__":
    sys.exit(main())
