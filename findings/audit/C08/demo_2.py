#!/usr/bin/env python3
"""C08 counterexample 2: main loop waits forever for a worker that never finishes.

Field lookup walks the parent classes without remembering what it has visited
(Record::find_field / is_subclass_of, crates/ide/src/symbol_map/record.rs:62,81).  With a
class that is inherited along two paths on each of N levels the lookup of a name that does
not exist takes 2^N steps; N = 40 (122 lines of text) is days.  The diagnostics task started
by didOpen holds a salsa snapshot during that time.  The next didChange reaches
AnalysisHost::set_file_content on the main loop (crates/lsp/src/server.rs:322), which blocks
until every snapshot is dropped (salsa 0.16 has no cancellation) -- so the main loop and the
worker are stuck for good, even for requests the main loop answers by itself.

exit 1 = violation observed, exit 0 = not observed.
"""
import sys
import tempfile
import time
from pathlib import Path

sys.path.insert(0, str(Path(__file__).resolve().parent))
from lspc import Client, uri_of

TIMEOUT = 15


def diamond(n):
    s = "class C0 { int x = 0; }\n"
    for i in range(1, n + 1):
        s += "class L%d : C%d;\nclass R%d : C%d;\nclass C%d : L%d, R%d;\n" % (i, i - 1, i, i - 1, i, i, i)
    s += "def d : C%d { let nope = 1; }\n" % n
    return s


def ping(c, timeout):
    """a request the main loop answers without any worker (no handler -> MethodNotFound)"""
    r = c.request("tablegen/ping", {}, timeout)
    return isinstance(r, dict)


def scenario(n):
    with tempfile.TemporaryDirectory() as d:
        d = Path(d)
        c = Client()
        try:
            assert isinstance(c.initialize(), dict)
            u = uri_of(d / "a.td")
            c.did_open(u, diamond(n))
            time.sleep(1.0)
            before = ping(c, TIMEOUT)
            hover = c.request_async(
                "textDocument/hover", {"textDocument": {"uri": u}, "position": {"line": 0, "character": 7}}
            )
            # the user fixes the file
            c.did_change(u, "class C0;\n")
            after = ping(c, TIMEOUT)
            hover_answered = isinstance(c.wait_response(hover, 1.0), dict)
            sym_answered = isinstance(c.symbols(u, 1.0), dict)
            print(
                "levels=%-3d main loop answers before didChange=%s, after didChange=%s, hover answered=%s, "
                "documentSymbol answered=%s, process alive=%s"
                % (n, before, after, hover_answered, sym_answered, c.alive())
            )
            return before, after and hover_answered and sym_answered
        finally:
            c.kill()


def main():
    b, a = scenario(8)
    if not (b and a):
        print("control failed: harness problem")
        return 0
    b, a = scenario(40)
    if b and not a:
        print("VIOLATION: after the didChange nothing is answered any more (waited %ds); process alive" % TIMEOUT)
        return 1
    print("no violation")
    return 0


if __name__ == "__main__":
    sys.exit(main())
