"""shared driver for the 'server dies' demos"""
import sys
import tempfile
import time
from pathlib import Path

sys.path.insert(0, str(Path(__file__).resolve().parent))
from lspc import Client, uri_of  # noqa: E402


def run(label, act, timeout=10):
    """act(client, dir) performs the traffic under test.  Afterwards a fresh, perfectly ordinary
    document is opened and its outline requested: a live server answers it.
    Returns (answered, exit_code, panic_lines)."""
    with tempfile.TemporaryDirectory() as d:
        d = Path(d)
        c = Client(stderr_path=str(d / "stderr.log"), env={"RUST_BACKTRACE": "0"})
        try:
            assert isinstance(c.initialize(), dict)
            act(c, d)
            u = uri_of(d / "sane.td")
            c.did_open(u, "class Sane;\n")
            r = c.symbols(u, timeout=timeout)
            answered = isinstance(r, dict)
            code = c.exit_code(1.0)
        finally:
            c.kill()
        err = (d / "stderr.log").read_text(errors="replace").splitlines()
        notes = []
        for i, l in enumerate(err):
            if "panicked at" in l or "overflowed its stack" in l:
                notes.append(l.strip()[:160])
                if i + 1 < len(err) and "panicked at" in l:
                    notes.append("    " + err[i + 1].strip()[:160])
        print("%-44s follow-up answered=%s exit_code=%s" % (label, answered, code))
        for n in notes[:4]:
            print("      " + n)
        return answered, code, notes
