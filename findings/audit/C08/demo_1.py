#!/usr/bin/env python3
"""C08 counterexample 1: the main loop blocks forever in a synchronous file read.

did_open / did_change resolve `include` statements on the main-loop thread with
std::fs::read_to_string (crates/lsp/src/vfs.rs:75, reached from
ide::file_system::collect_sources).  An include that names something whose read never
ends -- `include "/dev/stdin"` (needs nothing on disk) or a FIFO next to the document --
parks the main loop for good: the process stays alive, no later request is answered and no
later notification is processed.

exit 1 = violation observed, exit 0 = not observed.
"""
import os
import sys
import tempfile
from pathlib import Path

sys.path.insert(0, str(Path(__file__).resolve().parent))
from lspc import Client, uri_of

TIMEOUT = 10


def scenario(label, text, prepare=None):
    with tempfile.TemporaryDirectory() as d:
        d = Path(d)
        if prepare:
            prepare(d)
        c = Client()
        try:
            assert isinstance(c.initialize(), dict)
            u = uri_of(d / "a.td")
            c.did_open(u, text)
            r = c.symbols(u, timeout=TIMEOUT)
            alive = c.alive()
            answered = isinstance(r, dict)
            print("%-28s answered=%s process_alive=%s" % (label, answered, alive))
            return answered
        finally:
            c.kill()


def main():
    control = scenario("control (missing include)", 'include "missing.td"\nclass A;\n')
    if not control:
        print("control failed: harness problem")
        return 0
    stdin_ok = scenario("include \"/dev/stdin\"", 'include "/dev/stdin"\nclass A;\n')
    fifo_ok = scenario("include of a FIFO", 'include "pipe.td"\nclass A;\n', lambda d: os.mkfifo(d / "pipe.td"))
    if not stdin_ok or not fifo_ok:
        print("VIOLATION: documentSymbol sent after didOpen got no response within %ds; server alive but stuck" % TIMEOUT)
        return 1
    print("no violation")
    return 0


if __name__ == "__main__":
    sys.exit(main())
