#!/usr/bin/env python3
"""C08 counterexample 7: a deeply nested (but syntactically fine) value aborts the server.

The indexer is recursive over the value tree (ast::Value::index -> InnerValue -> SimpleValue ->
Value ..., crates/ide/src/index.rs:715-872) and runs on a tokio blocking thread (2 MiB stack).
A list literal nested 1000 deep overflows it: "thread ... has overflowed its stack", SIGABRT.
(In the debug build 500 levels are enough.)

exit 1 = violation observed, exit 0 = not observed.
"""
import sys
import time
from pathlib import Path

sys.path.insert(0, str(Path(__file__).resolve().parent))
from crashlib import run, uri_of


def opener(n):
    def act(c, d):
        c.did_open(uri_of(d / "a.td"), "def d { list<int> x = " + "[" * n + "]" * n + "; }\n")
        time.sleep(3)

    return act


def main():
    ok, _, _ = run("control (nesting depth 50)", opener(50))
    if not ok:
        print("control failed: harness problem")
        return 0
    ok, code, _ = run("nesting depth 1000", opener(1000), timeout=30)
    if not ok:
        print("VIOLATION: the server is gone (exit code %s)" % code)
        return 1
    print("no violation")
    return 0


if __name__ == "__main__":
    sys.exit(main())
