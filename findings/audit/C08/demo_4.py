#!/usr/bin/env python3
"""C08 counterexample 4: didOpen / didClose of a document whose URI is not a local file path
panics on the main loop (crates/lsp/src/vfs.rs:92-93 `.expect("failed to convert url to file
path")`, called from Server::set_file_content / did_close), and `file:///` panics in
ide::file_system::collect_sources (file_system.rs:164 `.expect("file dir not found")`).
`untitled:Untitled-1` is what editors use for a buffer that has not been saved yet.

exit 1 = violation observed, exit 0 = not observed.
"""
import sys
from pathlib import Path

sys.path.insert(0, str(Path(__file__).resolve().parent))
from crashlib import run, uri_of


def main():
    ok, _, _ = run("control (file URI)", lambda c, d: c.did_open(uri_of(d / "a.td"), "class A;\n"))
    if not ok:
        print("control failed: harness problem")
        return 0
    bad = 0
    for label, act in [
        ("didOpen untitled:Untitled-1", lambda c, d: c.did_open("untitled:Untitled-1", "class A;\n")),
        ("didClose untitled:Untitled-1", lambda c, d: c.did_close("untitled:Untitled-1")),
        ("didOpen file://host/share/a.td", lambda c, d: c.did_open("file://host/share/a.td", "class A;\n")),
        ("didOpen file:///", lambda c, d: c.did_open("file:///", "class A;\n")),
    ]:
        ok, code, _ = run(label, act)
        if not ok:
            bad += 1
    if bad:
        print("VIOLATION: %d of 4 notifications killed the server" % bad)
        return 1
    print("no violation")
    return 0


if __name__ == "__main__":
    sys.exit(main())
