"""Tiny LSP stdio client used by the audit scripts (python3, stdlib only)."""
import json
import os
import queue
import subprocess
import threading
import time
import urllib.parse

ROOT = os.path.dirname(os.path.dirname(os.path.abspath(__file__)))
BIN = os.path.join(ROOT, "target", "debug", "lsp")


def uri(path):
    return "file://" + urllib.parse.quote(path)


class Client:
    def __init__(self, env=None, cwd=None):
        e = dict(os.environ)
        e.pop("INCLUDE_DIR", None)
        if env:
            e.update(env)
        self.p = subprocess.Popen(
            [BIN], stdin=subprocess.PIPE, stdout=subprocess.PIPE,
            stderr=subprocess.PIPE, env=e, cwd=cwd)
        self.q = queue.Queue()
        self.next_id = 1
        self.notes = []
        self.stderr = []
        threading.Thread(target=self._reader, daemon=True).start()
        threading.Thread(target=self._err, daemon=True).start()
        self.request("initialize", {"processId": None, "rootUri": None, "capabilities": {}})
        self.notify("initialized", {})

    def _err(self):
        for line in self.p.stderr:
            self.stderr.append(line.decode("utf8", "replace"))

    def _reader(self):
        f = self.p.stdout
        while True:
            length = None
            while True:
                line = f.readline()
                if not line:
                    self.q.put(None)
                    return
                line = line.strip()
                if not line:
                    break
                if line.lower().startswith(b"content-length:"):
                    length = int(line.split(b":")[1])
            body = f.read(length)
            self.q.put(json.loads(body))

    def _send(self, msg):
        body = json.dumps(msg).encode("utf8")
        self.p.stdin.write(b"Content-Length: %d\r\n\r\n" % len(body) + body)
        self.p.stdin.flush()

    def notify(self, method, params):
        self._send({"jsonrpc": "2.0", "method": method, "params": params})

    def request(self, method, params, timeout=10):
        i = self.next_id
        self.next_id += 1
        self._send({"jsonrpc": "2.0", "id": i, "method": method, "params": params})
        end = time.time() + timeout
        while True:
            try:
                m = self.q.get(timeout=max(0.01, end - time.time()))
            except queue.Empty:
                raise TimeoutError(method)
            if m is None:
                raise RuntimeError("server died: " + "".join(self.stderr[-20:]))
            if m.get("id") == i and "method" not in m:
                if "error" in m:
                    return {"__error__": m["error"]}
                return m.get("result")
            self.notes.append(m)

    def drain(self, quiet=0.4):
        """collect notifications until nothing arrives for `quiet` seconds"""
        while True:
            try:
                m = self.q.get(timeout=quiet)
            except queue.Empty:
                return
            if m is None:
                raise RuntimeError("server died: " + "".join(self.stderr[-20:]))
            self.notes.append(m)

    def diags(self):
        """latest published diagnostics per uri (after drain)"""
        self.drain()
        out = {}
        for m in self.notes:
            if m.get("method") == "textDocument/publishDiagnostics":
                p = m["params"]
                out[p["uri"]] = (p.get("version"), [d["message"] for d in p["diagnostics"]])
        return out

    # conveniences
    def open(self, path, text, u=None):
        self.notify("textDocument/didOpen", {"textDocument": {
            "uri": u or uri(path), "languageId": "tablegen", "version": 1, "text": text}})

    def change(self, path, text, version=2, u=None):
        self.notify("textDocument/didChange", {
            "textDocument": {"uri": u or uri(path), "version": version},
            "contentChanges": [{"text": text}]})

    def close(self, path, u=None):
        self.notify("textDocument/didClose", {"textDocument": {"uri": u or uri(path)}})

    def hover(self, path, line, ch, u=None):
        return self.request("textDocument/hover", {
            "textDocument": {"uri": u or uri(path)}, "position": {"line": line, "character": ch}})

    def definition(self, path, line, ch, u=None):
        return self.request("textDocument/definition", {
            "textDocument": {"uri": u or uri(path)}, "position": {"line": line, "character": ch}})

    def references(self, path, line, ch, u=None):
        return self.request("textDocument/references", {
            "textDocument": {"uri": u or uri(path)}, "position": {"line": line, "character": ch},
            "context": {"includeDeclaration": True}})

    def symbols(self, path, u=None):
        return self.request("textDocument/documentSymbol", {"textDocument": {"uri": u or uri(path)}})

    def links(self, path, u=None):
        return self.request("textDocument/documentLink", {"textDocument": {"uri": u or uri(path)}})

    def folding(self, path, u=None):
        return self.request("textDocument/foldingRange", {"textDocument": {"uri": u or uri(path)}})

    def completion(self, path, line, ch, u=None):
        return self.request("textDocument/completion", {
            "textDocument": {"uri": u or uri(path)}, "position": {"line": line, "character": ch}})

    def inlay(self, path, l0, c0, l1, c1, u=None):
        return self.request("textDocument/inlayHint", {
            "textDocument": {"uri": u or uri(path)},
            "range": {"start": {"line": l0, "character": c0}, "end": {"line": l1, "character": c1}}})

    def stop(self):
        try:
            self.request("shutdown", None, timeout=3)
            self.notify("exit", None)
        except Exception:
            pass
        try:
            self.p.stdin.close()
        except Exception:
            pass
        try:
            self.p.wait(timeout=3)
        except Exception:
            self.p.kill()


def write(path, text, mode="w"):
    os.makedirs(os.path.dirname(path), exist_ok=True)
    with open(path, mode) as f:
        f.write(text)
