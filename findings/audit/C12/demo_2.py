#!/usr/bin/env python3
"""C12 counterexample 2: with a RELATIVE INCLUDE_DIR an open document found through that
directory is analysed with its on-disk text (and publishing diagnostics panics).
exit 1 = violation shows, 0 = it does not."""
import sys, os, tempfile, shutil, json
sys.path.insert(0, os.path.dirname(os.path.abspath(__file__)))
from lspc import Client, write, uri

d = os.path.realpath(tempfile.mkdtemp())
rc = 0
try:
    a, b = d + "/src/a.td", d + "/inc/b.td"
    A = 'include "b.td"\ndef x : Buf;\ndef y : Disk;\n'
    write(a, A)
    write(b, 'class Disk;\n')
    c = Client(env={"INCLUDE_DIR": "inc"}, cwd=d)     # server started in d, INCLUDE_DIR=inc
    c.open(b, 'class Buf;\n')
    c.open(a, A)
    c.change(a, A + "\n")
    h_buf = c.hover(a, 1, 9)
    h_disk = c.hover(a, 2, 9)
    dg = {k.split('/')[-1]: v for k, v in c.diags().items()}
    print("hover on Buf :", json.dumps(h_buf))
    print("hover on Disk:", json.dumps(h_disk))
    print("diagnostics (version, messages):", dg)
    c.stop()
    panics = [l for l in c.stderr if "panicked" in l or "failed to convert" in l]
    print("server stderr:", "".join(panics[:4]).strip())
    if h_buf is None or h_disk is not None:
        print("VIOLATION: inc/b.td is open in the editor, but the server analysed its on-disk text")
        rc = 1
finally:
    shutil.rmtree(d)
sys.exit(rc)
