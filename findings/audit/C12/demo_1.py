#!/usr/bin/env python3
"""C12 counterexample 1: an open document reached through an include whose path goes
through a symbolic link is analysed with its ON-DISK text, not with the editor buffer.
exit 1 = violation shows, 0 = it does not."""
import sys, os, tempfile, shutil, json
sys.path.insert(0, os.path.dirname(os.path.abspath(__file__)))
from lspc import Client, write, uri

d = os.path.realpath(tempfile.mkdtemp())
rc = 0
try:
    os.makedirs(d + "/real")
    os.symlink(d + "/real", d + "/lnk")          # lnk -> real
    a, b = d + "/a.td", d + "/real/b.td"
    A = 'include "lnk/b.td"\ndef x : Buf;\ndef y : Disk;\n'
    write(a, A)
    write(b, 'class Disk;\n')                    # text on disk
    c = Client()
    c.open(b, 'class Buf;\n')                    # editor buffer of b.td (unsaved): class renamed
    c.open(a, A)
    c.change(a, A + "\n")                        # an edit to a.td: re-analysis
    h_buf = c.hover(a, 1, 9)                     # on `Buf`  - exists only in the buffer
    h_disk = c.hover(a, 2, 9)                    # on `Disk` - exists only on disk
    dg = {k.split('/')[-1]: v[1] for k, v in c.diags().items()}
    print("hover on Buf :", json.dumps(h_buf))
    print("hover on Disk:", json.dumps(h_disk))
    print("diagnostics  :", dg)
    c.stop()
    if h_buf is None or h_disk is not None:
        print("VIOLATION: b.td is open in the editor, but the server analysed its on-disk text")
        rc = 1
finally:
    shutil.rmtree(d)
sys.exit(rc)
