#!/usr/bin/env python3
"""C12 counterexample 3: the scheme of a document URI is ignored.  A virtual document
`git:/dir/b.td?...` (what VS Code uses for the HEAD side of a diff) is taken for the file
/dir/b.td: its text overwrites the buffer of the open document file:///dir/b.td, and closing
it makes the on-disk text count although file:///dir/b.td is still open.
exit 1 = violation shows, 0 = it does not."""
import sys, os, tempfile, shutil, json
sys.path.insert(0, os.path.dirname(os.path.abspath(__file__)))
from lspc import Client, write, uri

d = os.path.realpath(tempfile.mkdtemp())
rc = 0
try:
    a, b = d + "/a.td", d + "/b.td"
    A = 'include "b.td"\ndef x : Buf;\ndef y : Disk;\ndef z : Head;\n'
    write(a, A)
    write(b, 'class Disk;\n')
    git_uri = "git:" + d + "/b.td?%7B%22path%22%3A%22b.td%22%2C%22ref%22%3A%22HEAD%22%7D"
    c = Client()
    c.open(b, 'class Buf;\n')                      # file:///d/b.td, unsaved edit
    c.open(a, A)
    print("before      : Buf", json.dumps(c.hover(a, 1, 9)))
    c.open(b, 'class Head;\n', u=git_uri)          # another document: git:/d/b.td?{...}
    c.change(a, A + "\n")
    s1 = (c.hover(a, 1, 9), c.hover(a, 2, 9), c.hover(a, 3, 9))
    print("git: opened : Buf %s | Disk %s | Head %s" % tuple(json.dumps(x) for x in s1))
    c.close(b, u=git_uri)                          # the diff view is closed; file:///d/b.td stays open
    c.change(a, A + "\n\n")
    s2 = (c.hover(a, 1, 9), c.hover(a, 2, 9), c.hover(a, 3, 9))
    print("git: closed : Buf %s | Disk %s | Head %s" % tuple(json.dumps(x) for x in s2))
    c.stop()
    if s1[0] is None or s1[2] is not None:
        print("VIOLATION: the text of git:...b.td replaced the buffer of the open file:///...b.td")
        rc = 1
    if s2[0] is None or s2[1] is not None:
        print("VIOLATION: file:///...b.td is still open, but the server analysed its on-disk text")
        rc = 1
finally:
    shutil.rmtree(d)
sys.exit(rc)
