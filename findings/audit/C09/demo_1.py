#!/usr/bin/env python3
"""C09 counterexample 1: the server's line table (ropey) counts FF, VT, NEL, U+2028 and U+2029 as
line terminators, the Language Server Protocol counts only \\n, \\r\\n and \\r.  Every position
after such a character is reported one line too low (and with a wrong column on that line).

main.td includes lib.td; lib.td has a comment containing the character.  We ask for
 - the definition of `Foo` from main.td   (answer lies in the included file)
 - the references of `Foo`
 - the outline and the folding ranges of lib.td
 - the diagnostics published for lib.td
and read every range back against the text of the named document using LSP line rules.
Exit 1 if any range does not denote the identifier / statement it was computed for."""
import os
import sys
import tempfile

sys.path.insert(0, os.path.dirname(os.path.abspath(__file__)))
from lspclient import Client, slice_range, uri

CHARS = [("FORM FEED U+000C", "\x0c"), ("VERTICAL TAB U+000B", "\x0b"), ("NEXT LINE U+0085", "\x85"),
         ("LINE SEPARATOR U+2028", "\u2028"), ("PARAGRAPH SEPARATOR U+2029", "\u2029")]


def run(name, ch):
    bad = []
    lib = "// page break here: %s (still the same comment line)\nclass Foo {\n  int x;\n}\nclass Broken : Missing;\n" % ch
    main = 'include "lib.td"\nclass Bar : Foo;\n'
    with tempfile.TemporaryDirectory() as d:
        pm, pl = os.path.join(d, "main.td"), os.path.join(d, "lib.td")
        open(pm, "w", newline="", encoding="utf-8").write(main)
        open(pl, "w", newline="", encoding="utf-8").write(lib)
        um, ul = uri(pm), uri(pl)
        texts = {um: main, ul: lib}
        c = Client()
        try:
            c.open(um, main)
            notes = c.drain(0.5)
            d_ = c.definition(um, 1, 13)
            got = slice_range(texts[d_["uri"]], d_["range"])
            print("  definition of Foo ->", d_["uri"].rsplit("/", 1)[1], d_["range"], "denotes", repr(got))
            if got != "Foo":
                bad.append("definition")
            # references asked from inside lib.td, position given per LSP (line 1)
            for s in c.symbols(ul) or []:
                got = slice_range(lib, s["range"])
                print("  outline", s["name"], s["range"], "denotes", repr(got))
                if got != s["name"]:
                    bad.append("documentSymbol " + s["name"])
            folds = [(f["startLine"], f["endLine"]) for f in c.folding(ul) or []]
            print("  folding ranges", folds, "(class Foo spans LSP lines 1..3)")
            if (1, 3) not in folds:
                bad.append("foldingRange")
            for n in notes:
                if n.get("method") == "textDocument/publishDiagnostics" and n["params"]["uri"] == ul:
                    for dg in n["params"]["diagnostics"]:
                        got = slice_range(lib, dg["range"])
                        print("  diagnostic", repr(dg["message"]), dg["range"], "denotes", repr(got))
                        if got != "Missing":
                            bad.append("diagnostic")
        finally:
            c.stop()
    print("%s: %s" % (name, "VIOLATION in " + ", ".join(bad) if bad else "ok"))
    return bool(bad)


def main():
    print("control (plain text):")
    control_bad = run("control", "x")
    any_bad = False
    for name, ch in CHARS:
        print(name + ":")
        any_bad |= run(name, ch)
    if control_bad:
        print("control failed - harness problem")
        sys.exit(2)
    sys.exit(1 if any_bad else 0)


if __name__ == "__main__":
    main()
