"""Minimal LSP stdio client for driving target/debug/lsp (used by the demo scripts)."""
import json
import os
import queue
import subprocess
import threading
import time

ROOT = os.path.dirname(os.path.dirname(os.path.abspath(__file__)))
SERVER = os.path.join(ROOT, "target", "debug", "lsp")


class Client:
    def __init__(self, env=None):
        e = dict(os.environ)
        e.pop("INCLUDE_DIR", None)
        if env:
            e.update(env)
        self.p = subprocess.Popen(
            [SERVER], stdin=subprocess.PIPE, stdout=subprocess.PIPE,
            stderr=subprocess.DEVNULL, env=e)
        self.q = queue.Queue()
        self.next_id = 1
        self.notifications = []
        self.t = threading.Thread(target=self._reader, daemon=True)
        self.t.start()
        self.request("initialize", {"processId": None, "rootUri": None, "capabilities": {}})
        self.notify("initialized", {})

    def _reader(self):
        f = self.p.stdout
        while True:
            headers = {}
            while True:
                line = f.readline()
                if not line:
                    self.q.put(None)
                    return
                line = line.strip()
                if not line:
                    break
                k, v = line.split(b":", 1)
                headers[k.strip().lower()] = v.strip()
            n = int(headers[b"content-length"])
            body = f.read(n)
            self.q.put(json.loads(body))

    def _send(self, msg):
        data = json.dumps(msg).encode("utf-8")
        self.p.stdin.write(b"Content-Length: %d\r\n\r\n" % len(data) + data)
        self.p.stdin.flush()

    def notify(self, method, params):
        self._send({"jsonrpc": "2.0", "method": method, "params": params})

    def request(self, method, params, timeout=20):
        rid = self.next_id
        self.next_id += 1
        self._send({"jsonrpc": "2.0", "id": rid, "method": method, "params": params})
        deadline = time.time() + timeout
        while True:
            try:
                msg = self.q.get(timeout=max(0.01, deadline - time.time()))
            except queue.Empty:
                raise TimeoutError(method)
            if msg is None:
                raise RuntimeError("server died during " + method)
            if msg.get("id") == rid and "method" not in msg:
                if "error" in msg:
                    return {"__error__": msg["error"]}
                return msg.get("result")
            self.notifications.append(msg)

    def drain(self, wait=0.5):
        """collect notifications arriving within `wait` seconds of quiet"""
        while True:
            try:
                msg = self.q.get(timeout=wait)
            except queue.Empty:
                break
            if msg is None:
                break
            self.notifications.append(msg)
        out = self.notifications
        self.notifications = []
        return out

    # helpers
    def open(self, uri, text, version=1):
        self.notify("textDocument/didOpen", {"textDocument": {
            "uri": uri, "languageId": "tablegen", "version": version, "text": text}})

    def change(self, uri, text, version=2):
        self.notify("textDocument/didChange", {
            "textDocument": {"uri": uri, "version": version},
            "contentChanges": [{"text": text}]})

    def close_doc(self, uri):
        self.notify("textDocument/didClose", {"textDocument": {"uri": uri}})

    def definition(self, uri, line, ch):
        return self.request("textDocument/definition", {
            "textDocument": {"uri": uri}, "position": {"line": line, "character": ch}})

    def references(self, uri, line, ch):
        return self.request("textDocument/references", {
            "textDocument": {"uri": uri}, "position": {"line": line, "character": ch},
            "context": {"includeDeclaration": True}})

    def symbols(self, uri):
        return self.request("textDocument/documentSymbol", {"textDocument": {"uri": uri}})

    def folding(self, uri):
        return self.request("textDocument/foldingRange", {"textDocument": {"uri": uri}})

    def links(self, uri):
        return self.request("textDocument/documentLink", {"textDocument": {"uri": uri}})

    def hints(self, uri, sl=0, sc=0, el=100000, ec=0):
        return self.request("textDocument/inlayHint", {
            "textDocument": {"uri": uri},
            "range": {"start": {"line": sl, "character": sc}, "end": {"line": el, "character": ec}}})

    def stop(self):
        try:
            self.request("shutdown", None, timeout=3)
            self.notify("exit", None)
        except Exception:
            pass
        try:
            self.p.stdin.close()
        except Exception:
            pass
        try:
            self.p.wait(timeout=3)
        except Exception:
            self.p.kill()


# --- LSP position semantics (the client's view of a text) ---

def lsp_lines(text):
    """Split per LSP: line terminators are \\n, \\r\\n and \\r only. Returns list of (start_offset_in_chars, line_text_without_eol)."""
    lines = []
    i = 0
    start = 0
    n = len(text)
    while i < n:
        c = text[i]
        if c == "\r":
            lines.append((start, text[start:i]))
            if i + 1 < n and text[i + 1] == "\n":
                i += 1
            i += 1
            start = i
        elif c == "\n":
            lines.append((start, text[start:i]))
            i += 1
            start = i
        else:
            i += 1
    lines.append((start, text[start:]))
    return lines


def pos_to_index(text, pos):
    """LSP position (utf-16) -> python str index; None if the line does not exist."""
    lines = lsp_lines(text)
    if pos["line"] >= len(lines):
        return None
    start, line = lines[pos["line"]]
    cu = 0
    for k, ch in enumerate(line):
        if cu >= pos["character"]:
            return start + k
        cu += 2 if ord(ch) > 0xFFFF else 1
    return start + len(line)  # clamp as the spec says


def slice_range(text, rng):
    a = pos_to_index(text, rng["start"])
    b = pos_to_index(text, rng["end"])
    if a is None or b is None:
        return None
    return text[a:b]


def uri(path):
    from urllib.parse import quote
    return "file://" + quote(path)
