#!/usr/bin/env python3
"""C09 counterexample 2: after textDocument/didClose of an included document that had unsaved
edits, the server keeps answering with the coordinates of the discarded editor buffer, although
(by its own rule in Vfs::read_content / Server::did_close) the file on disk is the document's
text again.

 lib.td on disk      : "class Foo;\\n"                       (Foo at 0:6)
 lib.td in the editor: 4 extra lines in front, never saved   (Foo at 4:6)
 main.td             : include "lib.td" / class Bar : Foo / class Bad : Missing2 ...

Sequence: didOpen lib.td (unsaved text), didOpen main.td, didClose lib.td, then
definition / documentSymbol / references are requested.  Exit 1 if a returned location, read against
the current text of lib.td (= the disk file, the only text left), does not denote `Foo`."""
import os
import sys
import tempfile

sys.path.insert(0, os.path.dirname(os.path.abspath(__file__)))
from lspclient import Client, slice_range, uri


def main():
    disk_lib = "class Foo;\n"
    editor_lib = "// unsaved\n// unsaved\n// unsaved\n// unsaved\nclass Foo;\nclass Broken : Missing;\n"
    main_td = 'include "lib.td"\nclass Bar : Foo;\n'
    bad = []
    with tempfile.TemporaryDirectory() as d:
        pm, pl = os.path.join(d, "main.td"), os.path.join(d, "lib.td")
        open(pm, "w").write(main_td)
        open(pl, "w").write(disk_lib)
        um, ul = uri(pm), uri(pl)
        c = Client()
        try:
            c.open(ul, editor_lib)
            c.open(um, main_td)
            c.drain(0.4)
            before = c.definition(um, 1, 13)
            print("lib.td open  : definition ->", before["range"], "denotes",
                  repr(slice_range(editor_lib, before["range"])), "in the editor text")
            if slice_range(editor_lib, before["range"]) != "Foo":
                print("unexpected answer while open - harness problem")
                sys.exit(2)

            c.close_doc(ul)          # the editor drops the buffer without saving
            notes = c.drain(0.4)
            print("notifications after didClose:", notes)

            after = c.definition(um, 1, 13)
            got = slice_range(disk_lib, after["range"])
            print("lib.td closed: definition ->", after["uri"].rsplit("/", 1)[1], after["range"],
                  "denotes", repr(got), "in the disk text", repr(disk_lib))
            if got != "Foo":
                bad.append("definition")
            for s in c.symbols(ul) or []:
                got = slice_range(disk_lib, s["range"])
                print("lib.td closed: outline", s["name"], s["range"], "denotes", repr(got))
                if got != s["name"]:
                    bad.append("documentSymbol " + s["name"])
            # a later edit of main.td makes the server read the disk again - shows what it should be
            c.change(um, main_td)
            c.drain(0.4)
            later = c.definition(um, 1, 13)
            print("after touching main.td: definition ->", later["range"], "denotes",
                  repr(slice_range(disk_lib, later["range"])))
        finally:
            c.stop()
    if bad:
        print("VIOLATION:", ", ".join(bad))
        sys.exit(1)
    print("ok")
    sys.exit(0)


if __name__ == "__main__":
    main()
