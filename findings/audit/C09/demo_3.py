#!/usr/bin/env python3
"""C09 counterexample 3 (lower severity, depends on whether a UTF-8 byte order mark belongs to "the
text of the document"): an included file that starts with a UTF-8 BOM.  Editors (and LSP clients
that load the file to show a location) strip the BOM, so the document's text starts with `class`.
The server keeps U+FEFF as the first character of the text it analyses, silently (no diagnostic is
published for an included file's lexer errors), and therefore reports every position on the first
line one UTF-16 unit too far to the right.

 lib.td on disk: EF BB BF "class Foo; class Broken : Missing;\\n"
 main.td       : include "lib.td" / class Bar : Foo;

Exit 1 if the definition of Foo / the diagnostic in lib.td, read against the BOM-less text, do not
denote `Foo` / `Missing`."""
import os
import sys
import tempfile

sys.path.insert(0, os.path.dirname(os.path.abspath(__file__)))
from lspclient import Client, slice_range, uri


def main():
    lib_text = "class Foo; class Broken : Missing;\n"      # what an editor shows for lib.td
    main_td = 'include "lib.td"\nclass Bar : Foo;\n'
    bad = []
    with tempfile.TemporaryDirectory() as d:
        pm, pl = os.path.join(d, "main.td"), os.path.join(d, "lib.td")
        open(pm, "w").write(main_td)
        open(pl, "wb").write(b"\xef\xbb\xbf" + lib_text.encode())
        um, ul = uri(pm), uri(pl)
        c = Client()
        try:
            c.open(um, main_td)
            notes = c.drain(0.4)
            r = c.definition(um, 1, 13)
            got = slice_range(lib_text, r["range"])
            print("definition of Foo ->", r["uri"].rsplit("/", 1)[1], r["range"], "denotes", repr(got))
            if got != "Foo":
                bad.append("definition")
            for n in notes:
                if n.get("method") == "textDocument/publishDiagnostics" and n["params"]["uri"] == ul:
                    for dg in n["params"]["diagnostics"]:
                        got = slice_range(lib_text, dg["range"])
                        print("diagnostic", repr(dg["message"]), dg["range"], "denotes", repr(got))
                        if dg["message"].startswith("class not found") and got != "Missing":
                            bad.append("diagnostic")
            # once the editor opens lib.td (sending the BOM-less text) the answers shift back
            c.open(ul, lib_text)
            c.change(um, main_td)
            c.drain(0.4)
            r2 = c.definition(um, 1, 13)
            print("after didOpen lib.td: definition ->", r2["range"], "denotes", repr(slice_range(lib_text, r2["range"])))
        finally:
            c.stop()
    if bad:
        print("VIOLATION:", ", ".join(bad))
        sys.exit(1)
    print("ok")
    sys.exit(0)


if __name__ == "__main__":
    main()
