#!/usr/bin/env python3
"""C11 counterexample 3 (crash class): a class that names itself as its parent makes the
indexer recurse for ever (Record::find_field, crates/ide/src/symbol_map/record.rs), the
process aborts with a stack overflow, and the diagnostics published before stay for ever.

  didOpen   a.td "class Foo"                       -> 1 diagnostic
  didChange a.td "class A : A { let y = 1; }\n"    -> nothing is published, process dies (SIGABRT)
  didChange a.td "class Foo;"                      -> nothing
exit 1 = the server died / the stale diagnostic is still the last one published."""
import os, sys, tempfile, shutil, time
sys.path.insert(0, os.path.dirname(os.path.abspath(__file__)))
from lspc import Client, uri

d = tempfile.mkdtemp(prefix="c11_demo3_")
try:
    A = os.path.join(d, "a.td")
    c = Client(); c.initialize()
    c.open(uri(A), "class Foo"); c.idle()
    first = c.diags(uri(A))
    c.change(uri(A), "class A : A { let y = 1; }\n")
    for _ in range(40):
        c.idle(0.25)
        if not c.alive():
            break
    c.change(uri(A), "class Foo;"); c.idle(1.0)
    last = c.diags(uri(A))
    alive = c.alive()
    code = c.p.poll()
    c.stop()
finally:
    shutil.rmtree(d)
print("published after didOpen:", first)
print("last published after the two changes:", last, "| server alive:", alive, "| exit status:", code)
violation = (not alive) or bool(last)
print("VIOLATION" if violation else "no violation")
sys.exit(1 if violation else 0)
