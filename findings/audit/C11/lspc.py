"""Minimal LSP stdio client used by the C11 audit probes / demos."""
import json
import os
import queue
import subprocess
import threading
import time
import urllib.parse

ROOT = os.path.dirname(os.path.dirname(os.path.abspath(__file__)))
SERVER = os.path.join(ROOT, "target", "debug", "lsp")


def uri(path):
    return "file://" + urllib.parse.quote(path)


class Client:
    def __init__(self, env=None, stderr=subprocess.DEVNULL):
        e = dict(os.environ)
        e.pop("INCLUDE_DIR", None)
        if env:
            e.update(env)
        self.p = subprocess.Popen(
            [SERVER], stdin=subprocess.PIPE, stdout=subprocess.PIPE, stderr=stderr, env=e
        )
        self.q = queue.Queue()
        self.next_id = 1
        self.published = []  # every publishDiagnostics params, in order
        self.last = {}  # uri -> last params
        self.responses = {}
        self.t = threading.Thread(target=self._reader, daemon=True)
        self.t.start()

    def _reader(self):
        f = self.p.stdout
        while True:
            length = None
            while True:
                line = f.readline()
                if not line:
                    self.q.put(None)
                    return
                line = line.strip()
                if not line:
                    break
                if line.lower().startswith(b"content-length:"):
                    length = int(line.split(b":")[1])
            body = f.read(length)
            self.q.put(json.loads(body))

    def send(self, msg):
        data = json.dumps(msg).encode()
        try:
            self.p.stdin.write(b"Content-Length: %d\r\n\r\n" % len(data) + data)
            self.p.stdin.flush()
        except (BrokenPipeError, OSError):
            pass

    def notify(self, method, params):
        self.send({"jsonrpc": "2.0", "method": method, "params": params})

    def request_nowait(self, method, params):
        i = self.next_id
        self.next_id += 1
        self.send({"jsonrpc": "2.0", "id": i, "method": method, "params": params})
        return i

    def _handle(self, msg):
        if msg is None:
            return
        if msg.get("method") == "textDocument/publishDiagnostics":
            self.published.append(msg["params"])
            self.last[msg["params"]["uri"]] = msg["params"]
        elif "id" in msg and "method" not in msg:
            self.responses[msg["id"]] = msg

    def pump(self, quiet=0.4, timeout=20.0):
        """Read messages until the server has been silent for `quiet` seconds."""
        end = time.time() + timeout
        while time.time() < end:
            try:
                msg = self.q.get(timeout=quiet)
            except queue.Empty:
                return True
            if msg is None:
                return False
            self._handle(msg)
        return True

    def request(self, method, params, timeout=10.0):
        i = self.request_nowait(method, params)
        end = time.time() + timeout
        while time.time() < end:
            if i in self.responses:
                return self.responses[i]
            try:
                msg = self.q.get(timeout=0.1)
            except queue.Empty:
                continue
            if msg is None:
                return None
            self._handle(msg)
        return None

    def initialize(self):
        r = self.request("initialize", {"processId": None, "rootUri": None, "capabilities": {}})
        self.notify("initialized", {})
        return r

    def open(self, u, text, version=1):
        self.notify(
            "textDocument/didOpen",
            {"textDocument": {"uri": u, "languageId": "tablegen", "version": version, "text": text}},
        )

    def change(self, u, text, version=2):
        self.notify(
            "textDocument/didChange",
            {"textDocument": {"uri": u, "version": version}, "contentChanges": [{"text": text}]},
        )

    def close(self, u):
        self.notify("textDocument/didClose", {"textDocument": {"uri": u}})

    def idle(self, quiet=0.5):
        return self.pump(quiet=quiet)

    def alive(self):
        return self.p.poll() is None

    def diags(self, u):
        """Messages of the diagnostics last published for the uri (None = never published)."""
        p = self.last.get(u)
        if p is None:
            return None
        return [(d["message"], d["range"]["start"]["line"], d["range"]["start"]["character"],
                 d["range"]["end"]["line"], d["range"]["end"]["character"]) for d in p["diagnostics"]]

    def snapshot(self):
        return {u: sorted(self.diags(u)) for u in self.last}

    def stop(self):
        try:
            self.p.stdin.close()
        except Exception:
            pass
        try:
            self.p.kill()
        except Exception:
            pass
        self.p.wait()


def fresh_diags(files_open, root_uri, root_text):
    """Diagnostics a fresh server publishes when it only sees the final state:
    `files_open` = [(uri, text)] other open documents (opened first), then the root."""
    c = Client()
    c.initialize()
    for u, t in files_open:
        c.open(u, t)
        c.idle(0.3)
    c.open(root_uri, root_text)
    c.idle()
    s = c.snapshot()
    c.stop()
    return s
