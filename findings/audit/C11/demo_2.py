#!/usr/bin/env python3
"""C11 counterexample 2: with a relative INCLUDE_DIR the publishing task panics half-way,
so the fix of a problem is never published (server alive and idle, stale diagnostics).

env:   INCLUDE_DIR=inc   (relative to the server's working directory; inc/lib.td exists)
       didOpen  a.td  'include "lib.td"\nclass Foo'    -> syntax error in a.td
       didChange a.td 'include "lib.td"\nclass Foo;'   -> fixed
The included file gets the relative path inc/lib.td; Url::from_file_path fails for it and
UrlExt::from_file_path (crates/lsp/src/vfs.rs:100) panics inside the publish loop of
Server::update_diagnostics.  Whatever comes after lib.td in the (randomly ordered) HashMap is
not published.  The order is random per run, so the scenario is tried several times.
exit 1 = a run ended idle with the stale error still published for a.td."""
import os, sys, tempfile, shutil
sys.path.insert(0, os.path.dirname(os.path.abspath(__file__)))
from lspc import Client, uri

stale_runs = 0
never_reported = 0
RUNS = 24
for attempt in range(RUNS):
    d = tempfile.mkdtemp(prefix="c11_demo2_")
    try:
        A = os.path.join(d, "a.td")
        os.mkdir(os.path.join(d, "inc"))
        with open(os.path.join(d, "inc", "lib.td"), "w") as f:
            f.write("class Lib;\n")
        cwd = os.getcwd()
        os.chdir(d)
        try:
            c = Client(env={"INCLUDE_DIR": "inc"})
        finally:
            os.chdir(cwd)
        c.initialize()
        c.open(uri(A), 'include "lib.td"\nclass Foo'); c.idle(0.5)
        s1 = c.diags(uri(A))
        c.change(uri(A), 'include "lib.td"\nclass Foo;'); c.idle(0.7)
        s2 = c.diags(uri(A))
        alive = c.alive()
        c.stop()
        if s1 is None:
            never_reported += 1
        if s2:
            stale_runs += 1
            print("run %d: after the fix, idle, server alive=%s, a.td still has: %s" % (attempt, alive, s2))
    finally:
        shutil.rmtree(d)
print("runs: %d, stale after fix: %d, error never published at all: %d" % (RUNS, stale_runs, never_reported))
print("VIOLATION" if stale_runs else "no violation")
sys.exit(1 if stale_runs else 0)
