#!/usr/bin/env python3
"""C11 counterexample 1: didClose does not refresh the published diagnostics.

disk:   a.td = "class Foo;\n"           (no problems)
editor: didOpen a.td with the unsaved text "class Foo"  -> 1 diagnostic published
        didClose a.td                    (the user discards the edit and closes the tab)
idle:   the diagnostic published for a.td is still there although, as the server itself
        says in did_close ("from now on the file on disk counts again"), the final state of
        a.td is the clean file on disk.  A fresh server that sees the final state publishes [].
Second part: the same for an included file (a.td includes b.td, b.td has an unsaved error,
b.td is closed).
exit 1 = violation shows, 0 = it does not."""
import os, sys, tempfile, shutil
sys.path.insert(0, os.path.dirname(os.path.abspath(__file__)))
from lspc import Client, uri

d = tempfile.mkdtemp(prefix="c11_demo1_")
violation = False
try:
    A = os.path.join(d, "a.td"); B = os.path.join(d, "b.td")
    with open(A, "w") as f:
        f.write("class Foo;\n")
    # --- part 1: the closed document itself
    c = Client(); c.initialize()
    c.open(uri(A), "class Foo"); c.idle()
    before = c.diags(uri(A))
    c.close(uri(A)); c.idle(1.0)
    after = c.diags(uri(A))
    alive = c.alive()
    c.stop()
    f = Client(); f.initialize()
    f.open(uri(A), open(A).read()); f.idle()
    fresh = f.diags(uri(A)); f.stop()
    print("part 1: published before close:", before)
    print("        last published after close + idle:", after, "(server alive: %s)" % alive)
    print("        fresh server on the final state:", fresh)
    if after != fresh:
        violation = True

    # --- part 2: an included file with an unsaved error is closed
    with open(A, "w") as f:
        f.write('include "b.td"\n')
    with open(B, "w") as f:
        f.write("class Ok;\n")
    c = Client(); c.initialize()
    c.open(uri(B), "def x : Missing;\n"); c.idle()
    c.open(uri(A), 'include "b.td"\n'); c.idle()
    before = c.diags(uri(B))
    c.close(uri(B)); c.idle(1.0)
    after = c.diags(uri(B))
    c.stop()
    f = Client(); f.initialize()
    f.open(uri(A), 'include "b.td"\n'); f.idle()
    fresh = f.diags(uri(B)); f.stop()
    print("part 2: b.td before close:", before)
    print("        b.td last published after close + idle:", after)
    print("        fresh server on the final state (a.td open, b.td from disk):", fresh)
    if after != fresh:
        violation = True
finally:
    shutil.rmtree(d)
print("VIOLATION" if violation else "no violation")
sys.exit(1 if violation else 0)
