#!/usr/bin/env python3
"""C11 counterexample 4 (crash class): a standard notification the server has no handler for
(workspace/didChangeConfiguration, also textDocument/willSave, workspace/didChangeWatchedFiles)
ends the main loop with a routing error; main() unwraps it (crates/lsp/src/main.rs:39) and the
process exits with status 101.  Problems fixed afterwards are never cleared.

  didOpen   a.td "class Foo"                          -> 1 diagnostic
  workspace/didChangeConfiguration {"settings": {}}   -> server exits (101)
  didChange a.td "class Foo;"                         -> nothing
exit 1 = the server died / the stale diagnostic is still the last one published."""
import os, sys, tempfile, shutil
sys.path.insert(0, os.path.dirname(os.path.abspath(__file__)))
from lspc import Client, uri

d = tempfile.mkdtemp(prefix="c11_demo4_")
try:
    A = os.path.join(d, "a.td")
    c = Client(); c.initialize()
    c.open(uri(A), "class Foo"); c.idle()
    first = c.diags(uri(A))
    c.notify("workspace/didChangeConfiguration", {"settings": {}}); c.idle(0.7)
    c.change(uri(A), "class Foo;"); c.idle(1.0)
    last = c.diags(uri(A))
    alive = c.alive()
    code = c.p.poll()
    c.stop()
finally:
    shutil.rmtree(d)
print("published after didOpen:", first)
print("last published after the fix:", last, "| server alive:", alive, "| exit status:", code)
violation = (not alive) or bool(last)
print("VIOLATION" if violation else "no violation")
sys.exit(1 if violation else 0)
