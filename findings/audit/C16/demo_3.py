#!/usr/bin/env python3
"""C16 counterexample 3: a form feed / vertical tab / NEL / U+2028 / U+2029 earlier in the file
(e.g. inside a comment) is counted as a line break by the server (ropey's default line model),
but not by LSP (only \\n, \\r\\n, \\r end a line). The document link and the not-found diagnostic
are then placed one line too low: the not-found diagnostic lands on a DIFFERENT include statement.
exit 1 = violation observed."""
import sys, os
sys.path.insert(0, os.path.dirname(os.path.abspath(__file__)))
from lsp import Client, Tmp, uri

bad = False
for name, ch in [("form feed", "\x0c"), ("vertical tab", "\x0b"), ("NEL U+0085", "\x85"),
                 ("LS U+2028", "\u2028"), ("PS U+2029", "\u2029")]:
    A = '// page break %s here\ninclude "nope.td"\ninclude "b.td"\n' % ch
    with Tmp() as t:
        t.write("a.td", A)
        t.write("b.td", "class B;\n")
        c = Client()
        c.open(t.path("a.td"), A)
        links = c.sync(t.path("a.td")).get("result") or []
        ws = c.diags_of_last_version()
        c.stop()
        diags = ws.get(uri(t.path("a.td")), [])
        nf = [d["range"] for d in diags if "not found: nope.td" in d["message"]]
        lk = [l["range"] for l in links]
        print(name, "-> not-found diag range:", nf, " link range:", lk)
        # LSP lines: 0 comment, 1 include "nope.td", 2 include "b.td"
        if not nf or nf[0]["start"]["line"] != 1:
            print("  VIOLATION: the not-found diagnostic is not on line 1 (the `include \"nope.td\"` statement)")
            bad = True
        if not lk or lk[0]["start"]["line"] != 2 or lk[0]["start"]["character"] != 8:
            print("  VIOLATION: the document link is not on the string of line 2 (`include \"b.td\"`)")
            bad = True
sys.exit(1 if bad else 0)
