#!/usr/bin/env python3
"""C16 counterexample 9 (state of the disk): an include that names a FIFO (named pipe) without a
writer. collect_sources reads every candidate with fs::read_to_string on the main loop thread
(Vfs::read_content), open(2) blocks for ever, didOpen never returns and the server answers nothing
any more: selecting the root does not terminate.
exit 1 = violation observed (no answer within 8 s)."""
import sys, os
sys.path.insert(0, os.path.dirname(os.path.abspath(__file__)))
from lsp import Client, Tmp, uri

A = 'include "b.td"\ninclude "pipe.td"\n'
with Tmp() as t:
    os.mkfifo(t.path("pipe.td"))
    t.write("a.td", A)
    t.write("b.td", "class B;\n")
    c = Client()
    c.open(t.path("a.td"), A)
    r = c.request("textDocument/documentLink", {"textDocument": {"uri": uri(t.path("a.td"))}}, timeout=8)
    c.p.kill()
    print("documentLink answer:", r)
    if r.get("timeout"):
        print("VIOLATION: server hangs in didOpen (blocking read of a FIFO)")
        sys.exit(1)
sys.exit(0)
