#!/usr/bin/env python3
"""C16 counterexample 4: `include` is a lexer-level directive in TableGen (TGLexer::LexIdentifier ->
LexInclude), so it is legal wherever a token may appear, e.g. in the body of a multiclass, class or
def (the included file then holds body items). The server's grammar accepts Include only as a
top-level-style statement:
 - in a multiclass body the include is eaten as an error: no link, file not in the workspace,
   and (for a missing file) no not-found diagnostic - only bogus syntax errors
 - in a class/def body it is only picked up by error recovery, with bogus syntax errors.
exit 1 = violation observed."""
import sys, os
sys.path.insert(0, os.path.dirname(os.path.abspath(__file__)))
from lsp import Client, Tmp, uri

bad = False
cases = {
    "multiclass body, file exists": ('class Base;\nmulticlass M {\n  include "defs.inc"\n}\n', "defs.inc", True),
    "multiclass body, file missing": ('class Base;\nmulticlass M {\n  include "nope.inc"\n  def _x : Base;\n}\n', "nope.inc", False),
    "class body, file exists": ('class K {\n  include "fields.inc"\n}\n', "fields.inc", True),
}
for label, (A, inc, exists) in cases.items():
    with Tmp() as t:
        t.write("a.td", A)
        t.write("defs.inc", "def _a : Base;\n")
        t.write("fields.inc", "int width = 4;\n")
        c = Client()
        c.open(t.path("a.td"), A)
        links = c.sync(t.path("a.td")).get("result") or []
        ws = c.diags_of_last_version()
        c.stop()
        diags = [d["message"] for d in ws.get(uri(t.path("a.td")), [])]
        print(label, "| links:", [l["target"].rsplit("/", 1)[1] for l in links], "| workspace:", sorted(u.rsplit("/", 1)[1] for u in ws), "| diags:", diags)
        if exists:
            if not links or uri(t.path(inc)) not in ws:
                print("  VIOLATION: resolvable include yields no link / its file is not in the workspace")
                bad = True
            if any(m.startswith("expected") for m in diags):
                print("  VIOLATION: legal include position reported as syntax error")
                bad = True
        else:
            if not any("include file not found" in m for m in diags):
                print("  VIOLATION: unresolvable include yields no not-found diagnostic")
                bad = True
sys.exit(1 if bad else 0)
