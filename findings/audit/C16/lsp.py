"""Tiny LSP stdio client for driving target/debug/lsp."""
import json
import os
import subprocess
import tempfile
import threading
import queue
import shutil
import time
from urllib.parse import quote

ROOT = os.path.dirname(os.path.dirname(os.path.abspath(__file__)))
SERVER = os.path.join(ROOT, "target", "debug", "lsp")


def uri(path):
    return "file://" + quote(path)


class Client:
    def __init__(self, env=None):
        e = dict(os.environ)
        e.pop("INCLUDE_DIR", None)
        if env:
            e.update(env)
        self.p = subprocess.Popen(
            [SERVER], stdin=subprocess.PIPE, stdout=subprocess.PIPE,
            stderr=subprocess.PIPE, env=e)
        self.q = queue.Queue()
        self.next_id = 1
        self.notifs = []  # notifications received
        self.stderr_buf = []
        self.t = threading.Thread(target=self._reader, daemon=True)
        self.t.start()
        self.t2 = threading.Thread(target=self._err, daemon=True)
        self.t2.start()
        r = self.request("initialize", {"processId": None, "rootUri": None, "capabilities": {}})
        assert "result" in r, r
        self.notify("initialized", {})

    def _err(self):
        for line in self.p.stderr:
            self.stderr_buf.append(line.decode("utf-8", "replace"))

    def _reader(self):
        f = self.p.stdout
        while True:
            length = None
            while True:
                line = f.readline()
                if not line:
                    self.q.put(None)
                    return
                line = line.strip()
                if not line:
                    break
                if line.lower().startswith(b"content-length:"):
                    length = int(line.split(b":")[1])
            body = f.read(length or 0)
            try:
                self.q.put(json.loads(body))
            except ValueError:  # truncated message: the server went away
                self.q.put(None)
                return

    def _send(self, msg):
        data = json.dumps(msg).encode()
        self.p.stdin.write(b"Content-Length: %d\r\n\r\n" % len(data) + data)
        self.p.stdin.flush()

    def notify(self, method, params):
        self._send({"jsonrpc": "2.0", "method": method, "params": params})

    def request(self, method, params, timeout=20):
        i = self.next_id
        self.next_id += 1
        self._send({"jsonrpc": "2.0", "id": i, "method": method, "params": params})
        end = time.time() + timeout
        while True:
            try:
                m = self.q.get(timeout=max(0.01, end - time.time()))
            except queue.Empty:
                return {"timeout": True}
            if m is None:
                return {"dead": True, "stderr": "".join(self.stderr_buf[-20:])}
            if m.get("id") == i and "method" not in m:
                return m
            self.notifs.append(m)

    def drain(self, wait=0.3):
        """collect notifications that arrive within `wait` seconds of silence"""
        while True:
            try:
                m = self.q.get(timeout=wait)
            except queue.Empty:
                return
            if m is None:
                return
            self.notifs.append(m)

    def open(self, path, text, version=1):
        self.notify("textDocument/didOpen", {"textDocument": {
            "uri": uri(path), "languageId": "tablegen", "version": version, "text": text}})

    def change(self, path, text, version=2):
        self.notify("textDocument/didChange", {
            "textDocument": {"uri": uri(path), "version": version},
            "contentChanges": [{"text": text}]})

    def close_doc(self, path):
        self.notify("textDocument/didClose", {"textDocument": {"uri": uri(path)}})

    def links(self, path):
        return self.request("textDocument/documentLink", {"textDocument": {"uri": uri(path)}})

    def symbols(self, path):
        return self.request("textDocument/documentSymbol", {"textDocument": {"uri": uri(path)}})

    def sync(self, path):
        """a request acts as a barrier: earlier notifications are handled; then drain publishes"""
        r = self.links(path)
        self.drain()
        return r

    def last_diags(self):
        """uri -> diagnostics of the highest-version publish for that uri"""
        out = {}
        ver = {}
        for m in self.notifs:
            if m.get("method") == "textDocument/publishDiagnostics":
                p = m["params"]
                v = p.get("version", 0)
                if p["uri"] not in ver or v >= ver[p["uri"]]:
                    ver[p["uri"]] = v
                    out[p["uri"]] = p["diagnostics"]
        return out

    def diags_of_last_version(self):
        """publishes belonging to the highest version seen: uri -> diagnostics"""
        pubs = [m["params"] for m in self.notifs if m.get("method") == "textDocument/publishDiagnostics"]
        if not pubs:
            return {}
        top = max(p.get("version", 0) for p in pubs)
        return {p["uri"]: p["diagnostics"] for p in pubs if p.get("version", 0) == top}

    def stop(self):
        try:
            self.request("shutdown", None, timeout=3)
            self.notify("exit", None)
        except Exception:
            pass
        try:
            self.p.wait(timeout=3)
        except Exception:
            self.p.kill()


class Tmp:
    def __enter__(self):
        self.d = os.path.realpath(tempfile.mkdtemp(prefix="c16audit"))
        return self

    def __exit__(self, *a):
        shutil.rmtree(self.d, ignore_errors=True)

    def path(self, name):
        return os.path.join(self.d, name)

    def write(self, name, text, mode="w"):
        p = self.path(name)
        os.makedirs(os.path.dirname(p), exist_ok=True)
        if isinstance(text, bytes):
            with open(p, "wb") as f:
                f.write(text)
        else:
            with open(p, "w", newline="") as f:
                f.write(text)
        return p


def show(x):
    print(json.dumps(x, indent=1, ensure_ascii=False))
