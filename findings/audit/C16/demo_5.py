#!/usr/bin/env python3
"""C16 counterexample 5 (precision): the not-found diagnostic is not confined to the include
statement. Its range is the Include syntax node, which owns all trailing trivia: blank lines,
comments and even preprocessor-disabled regions up to the next token. The diagnostic of
`include "nope.td"` on line 0 therefore spans lines 0..6 and covers text that belongs to no statement
(and a disabled `include "other.td"`).
exit 1 = violation observed."""
import sys, os
sys.path.insert(0, os.path.dirname(os.path.abspath(__file__)))
from lsp import Client, Tmp, uri

A = ('include "nope.td"\n'
     '\n'
     '// a comment block that documents class A\n'
     '#ifdef NEVER\n'
     'include "other.td"\n'
     '#endif\n'
     'class A;\n')
with Tmp() as t:
    t.write("a.td", A)
    c = Client()
    c.open(t.path("a.td"), A)
    c.sync(t.path("a.td"))
    ws = c.diags_of_last_version()
    c.stop()
    d = [x for x in ws.get(uri(t.path("a.td")), []) if "include file not found: nope.td" in x["message"]]
    print(d)
    if not d:
        print("no not-found diagnostic at all"); sys.exit(1)
    r = d[0]["range"]
    # the statement is line 0, characters 0..17
    if (r["end"]["line"], r["end"]["character"]) != (0, 17):
        print("VIOLATION: diagnostic range ends at %d:%d instead of 0:17 (end of the include statement)" % (r["end"]["line"], r["end"]["character"]))
        sys.exit(1)
sys.exit(0)
