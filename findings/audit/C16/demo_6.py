#!/usr/bin/env python3
"""C16 counterexample 6: text inside a preprocessor-disabled region is still tokenised. TableGen skips
a disabled region line by line without lexing it, so an unbalanced `[{` there is harmless. In the
server the `[{` starts a code literal that swallows `#endif` and the rest of the file: the include
statements after the region silently vanish (no link, file not in the workspace, no not-found
diagnostic, and not even a syntax error).
exit 1 = violation observed."""
import sys, os
sys.path.insert(0, os.path.dirname(os.path.abspath(__file__)))
from lsp import Client, Tmp, uri

A = ('#ifdef OLD_VARIANT\n'
     '// half of an old definition, disabled:  def X { code c = [{ old\n'
     'def X { code c = [{ old\n'
     '#endif\n'
     'include "b.td"\n'
     'include "nope.td"\n')
with Tmp() as t:
    t.write("a.td", A)
    t.write("b.td", "class B;\n")
    c = Client()
    c.open(t.path("a.td"), A)
    links = c.sync(t.path("a.td")).get("result") or []
    ws = c.diags_of_last_version()
    c.stop()
    diags = [d["message"] for d in ws.get(uri(t.path("a.td")), [])]
    print("links:", links, "workspace:", sorted(u.rsplit("/", 1)[1] for u in ws), "diags:", diags)
    bad = False
    if not links or uri(t.path("b.td")) not in ws:
        print('VIOLATION: `include "b.td"` after #endif: no link / b.td not in the workspace'); bad = True
    if not any("include file not found: nope.td" in m for m in diags):
        print('VIOLATION: `include "nope.td"` after #endif: no not-found diagnostic'); bad = True
sys.exit(1 if bad else 0)
