#!/usr/bin/env python3
"""C16 counterexample 8 (configuration edge): the only way to give the server an include search path
is the INCLUDE_DIR environment variable. If it is a RELATIVE path (e.g. INCLUDE_DIR=inc, the usual
shape of a -I option) and an include resolves through it, the file gets a relative FilePath;
Url::from_file_path fails on it and the server panics ("failed to convert file path to url",
crates/lsp/src/vfs.rs) - the documentLink request never gets an answer and the process dies;
the diagnostics publication is cut short as well.
exit 1 = violation observed."""
import sys, os
sys.path.insert(0, os.path.dirname(os.path.abspath(__file__)))
from lsp import Client, Tmp, uri

A = 'include "lib.td"\ndef x : Lib;\n'
with Tmp() as t:
    t.write("src/a.td", A)
    t.write("inc/lib.td", "class Lib;\n")
    old = os.getcwd()
    os.chdir(t.d)
    try:
        c = Client(env={"INCLUDE_DIR": "inc"})
    finally:
        os.chdir(old)
    c.open(t.path("src/a.td"), A)
    r = c.request("textDocument/documentLink", {"textDocument": {"uri": uri(t.path("src/a.td"))}}, timeout=10)
    c.drain()
    ws = c.diags_of_last_version()
    panics = [l.strip() for l in "".join(c.stderr_buf).splitlines() if "panicked" in l or "failed to convert" in l]
    c.p.kill()
    print("documentLink answer:", {k: v for k, v in r.items() if k != "stderr"})
    print("published:", sorted(ws), "panic lines:", panics[:4])
    if "result" in r and r["result"] and r["result"][0]["target"] == uri(t.path("inc/lib.td")):
        sys.exit(0)
    print("VIOLATION: include resolved through a relative INCLUDE_DIR: no link, server panicked/died")
    sys.exit(1)
