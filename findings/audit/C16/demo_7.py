#!/usr/bin/env python3
"""C16 counterexample 7 (extreme input): selecting the root of a long include CHAIN
(f0 -> f1 -> ... -> fN-1, N = 4000 by default, no cycle) kills the server: the indexer recurses
once per nested include (ast::Include::index -> SourceFile::index -> ...) on a 2 MiB tokio
blocking-thread stack: "thread 'tokio-runtime-worker' has overflowed its stack", SIGABRT.
Observed on the debug build: N=2000 fine, N=3000 aborts.
exit 1 = violation observed (server died / no answer)."""
import sys, os
sys.path.insert(0, os.path.dirname(os.path.abspath(__file__)))
from lsp import Client, Tmp, uri

N = int(sys.argv[1]) if len(sys.argv) > 1 else 4000
with Tmp() as t:
    for i in range(N):
        t.write("f%d.td" % i, ('include "f%d.td"\n' % (i + 1) if i + 1 < N else "") + "class C%d;\n" % i)
    c = Client()
    c.open(t.path("f0.td"), open(t.path("f0.td")).read())
    r = c.request("textDocument/documentSymbol", {"textDocument": {"uri": uri(t.path("f%d.td" % (N - 1)))}}, timeout=120)
    err = "".join(c.stderr_buf)
    c.p.kill()
    if "result" in r and r["result"]:
        print("chain of", N, "files: ok,", r["result"][0]["name"], "indexed")
        sys.exit(0)
    print("chain of", N, "files:", {k: v for k, v in r.items() if k != "stderr"}, [l for l in err.splitlines() if "overflow" in l])
    print("VIOLATION: server died while indexing an acyclic include chain")
    sys.exit(1)
