#!/usr/bin/env python3
"""C16 counterexample 2: preprocessor macros are per file, not per translation unit.
TableGen handles `include` textually, so a `#define` made before an include is visible in the
included file (and one made in an included file is visible afterwards in the includer).
The server parses every file with an empty macro set:
 (a) a.td: #define FOO + include "b.td";  b.td: #ifdef FOO include "c.td" #endif
     -> c.td is reachable from the root but is missing from the workspace, no link in b.td
 (b) b2.td: #ifndef FOO include "nope.td" #endif  (disabled, because a2.td defined FOO)
     -> false "include file not found" diagnostic
 (c) a3.td: include "def.td" (which does #define BAR) ; #ifdef BAR include "c.td" #endif
     -> no link, c.td not in the workspace
exit 1 = violation observed."""
import sys, os
sys.path.insert(0, os.path.dirname(os.path.abspath(__file__)))
from lsp import Client, Tmp, uri

def session(t, root):
    c = Client()
    c.open(t.path(root), open(t.path(root)).read())
    c.sync(t.path(root))
    ws = c.diags_of_last_version()
    return c, ws

bad = False
with Tmp() as t:
    t.write("c.td", "class C;\n")
    t.write("a.td", '#define FOO\ninclude "b.td"\ndef x : C;\n')
    t.write("b.td", '#ifdef FOO\ninclude "c.td"\n#endif\n')
    t.write("a2.td", '#define FOO\ninclude "b2.td"\n')
    t.write("b2.td", '#ifndef FOO\ninclude "nope.td"\n#endif\n')
    t.write("a3.td", 'include "def.td"\n#ifdef BAR\ninclude "c.td"\n#endif\n')
    t.write("def.td", '#define BAR\n')

    c, ws = session(t, "a.td")
    lb = c.links(t.path("b.td")).get("result") or []
    c.stop()
    print("(a) workspace:", sorted(u.rsplit("/", 1)[1] for u in ws), "links(b.td):", lb,
          "diags:", [d["message"] for ds in ws.values() for d in ds])
    if uri(t.path("c.td")) not in ws or not lb:
        print("VIOLATION (a): c.td is included by b.td under FOO (defined by the root before the include) "
              "but is not in the workspace / not linked")
        bad = True

    c, ws = session(t, "a2.td")
    c.stop()
    d = [x["message"] for x in ws.get(uri(t.path("b2.td")), [])]
    print("(b) diags(b2.td):", d)
    if any("include file not found: nope.td" in m for m in d):
        print("VIOLATION (b): not-found diagnostic for an include statement that is disabled by #ifndef FOO")
        bad = True

    c, ws = session(t, "a3.td")
    la = c.links(t.path("a3.td")).get("result") or []
    c.stop()
    print("(c) workspace:", sorted(u.rsplit("/", 1)[1] for u in ws), "links(a3.td):", [(l["range"]["start"]["line"], l["target"].rsplit("/", 1)[1]) for l in la])
    if uri(t.path("c.td")) not in ws:
        print("VIOLATION (c): BAR is defined by the included def.td, include \"c.td\" is active, c.td missing from workspace")
        bad = True
sys.exit(1 if bad else 0)
