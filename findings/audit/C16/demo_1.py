#!/usr/bin/env python3
"""C16 counterexample 1: include statements in the body of a `foreach` whose iterator value the
indexer cannot type (here `!cond(...)`, a legal list value) are skipped by the indexer:
 - the include that resolves is linked and its file is in the workspace, but the file is never indexed
 - the include that does not resolve gets NO not-found diagnostic.
exit 1 = violation observed, 0 = not observed."""
import sys, os
sys.path.insert(0, os.path.dirname(os.path.abspath(__file__)))
from lsp import Client, Tmp, uri

A = ('foreach i = !cond(true: [1, 2]) in {\n'
     '  include "b.td"\n'
     '  include "nope.td"\n'
     '}\n'
     'def x : B;\n')
B = 'class B;\n'

with Tmp() as t:
    t.write("a.td", A)
    t.write("b.td", B)
    c = Client()
    c.open(t.path("a.td"), A)
    links = c.sync(t.path("a.td")).get("result") or []
    ws = c.diags_of_last_version()
    syms = c.symbols(t.path("b.td")).get("result")
    c.stop()
    diags_a = ws.get(uri(t.path("a.td")), [])
    print("links:", [(l["range"]["start"]["line"], l["target"]) for l in links])
    print("workspace (published uris):", sorted(ws))
    print("diagnostics of a.td:", [(d["range"]["start"]["line"], d["message"]) for d in diags_a])
    print("documentSymbol(b.td):", syms)
    linked_b = any(l["target"] == uri(t.path("b.td")) for l in links)
    b_in_ws = uri(t.path("b.td")) in ws
    not_found = [d for d in diags_a if "include file not found: nope.td" in d["message"]]
    b_indexed = bool(syms) and any(s["name"] == "B" for s in syms)
    false_err = [d for d in diags_a if "class not found: B" in d["message"]]
    bad = False
    if not not_found:
        print('VIOLATION: `include "nope.td"` does not resolve, yet no not-found diagnostic was published')
        bad = True
    if linked_b and b_in_ws and (not b_indexed or false_err):
        print("VIOLATION: b.td is linked and in the workspace, but its declarations are not indexed", [d["message"] for d in false_err])
        bad = True
    sys.exit(1 if bad else 0)
