#!/usr/bin/env python3
"""C07 counterexample 4 (low severity, non-determinism rather than staleness): the ORDER of the
published diagnostics is not a function of the file contents.

`def x : N;` with four missing template arguments gives four diagnostics with the same range.
Their order in the publishDiagnostics array changes from one revision to the next when only a
trailing blank is appended (and from one fresh server to the next): check_template_args iterates
a std HashSet (per-instance random hashing).
exit 1 = more than one order observed, exit 0 = one order only."""
import os, sys, tempfile
sys.path.insert(0, os.path.dirname(os.path.abspath(__file__)))
from lspc import Client, uri

T = "class N<int p, int q, int r, int s>;\ndef x : N;\n"
orders = set()
with tempfile.TemporaryDirectory() as d:
    d = os.path.realpath(d)
    A = os.path.join(d, "a.td")
    for run in range(2):
        c = Client(); c.open(A, T)
        for i in range(6):
            c.change(A, T + " " * i)
            c.sync(A)
            orders.add(tuple(m[4] for m in c.diagnostics()[uri(A)]))
        c.stop()
for o in sorted(orders):
    print(o)
bad = 1 if len(orders) > 1 else 0
print("violation observed: %d different orders for the same declarations" % len(orders) if bad
      else "no violation observed")
sys.exit(bad)
