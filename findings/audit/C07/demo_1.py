#!/usr/bin/env python3
"""C07 counterexample 1: didClose of an included document does not bring the file on disk back.

a.td (root) includes b.td.  b.td on disk declares class X.  The editor opens b.td with an unsaved
edit (X renamed to Y), the root is edited (so the root's analysis uses the buffer of b.td), then
b.td is closed WITHOUT saving.  From now on the text of b.td is what is on disk (class X), but
the server keeps answering from the discarded buffer (class Y) until some later edit.
A fresh server given the same final state (a.td open, b.td only on disk) resolves X.
exit 1 = violation observed, exit 0 = not observed."""
import os, sys, tempfile
sys.path.insert(0, os.path.dirname(os.path.abspath(__file__)))
from lspc import Client, uri

A_TEXT = 'include "b.td"\nclass K : X;\n'
with tempfile.TemporaryDirectory() as d:
    d = os.path.realpath(d)
    A = os.path.join(d, "a.td"); B = os.path.join(d, "b.td")
    open(A, "w").write(A_TEXT)
    open(B, "w").write("class X;\n")

    def ask(c):
        r = {"hover": c.hover(A, 1, 10), "definition": c.definition(A, 1, 10),
             "references": c.references(A, 1, 10)}
        r["diagnostics a.td"] = c.diagnostics().get(uri(A), [])
        return r

    h = Client()
    h.open(A, A_TEXT)
    h.open(B, "class Y;\n")          # unsaved edit of the included file
    h.change(A, A_TEXT)              # root analysed with the buffer of b.td
    h.close(B)                       # buffer discarded: b.td is "class X;" again
    hist = ask(h)
    h.stop()

    f = Client()
    f.open(A, A_TEXT)
    fresh = ask(f)
    f.stop()

bad = 0
for k in fresh:
    if hist[k] != fresh[k]:
        bad = 1
        print("MISMATCH %s\n   after history: %r\n   fresh server : %r" % (k, hist[k], fresh[k]))
print("violation observed" if bad else "no violation observed")
sys.exit(bad)
