#!/usr/bin/env python3
"""C07 counterexample 2: a closed document stays the root of the analysis.

a.td is opened, then an unrelated x.td is opened (x.td becomes the root) and closed again.
Final state: only a.td is open.  The server still analyses x.td as the root, so every
index-based query on the only open document answers null; a fresh server given the final
state (a.td open) answers.  Third part: the everyday form of it - from the root a.td the user
looks into the included b.td (didOpen with the text on disk, didClose) and comes back: hover /
documentSymbol on a.td answer null until a.td is edited.  Second part: the closed root even keeps its unsaved buffer, which shows
in answers for a still-open included document.
exit 1 = violation observed, exit 0 = not observed."""
import os, sys, tempfile
sys.path.insert(0, os.path.dirname(os.path.abspath(__file__)))
from lspc import Client, uri

A_TEXT = "class K;\nclass L : K;\n"
bad = 0
with tempfile.TemporaryDirectory() as d:
    d = os.path.realpath(d)
    A = os.path.join(d, "a.td"); X = os.path.join(d, "x.td")
    open(A, "w").write(A_TEXT); open(X, "w").write("class Q;\n")

    def ask(c):
        return {"documentSymbol": c.symbols(A), "hover": c.hover(A, 1, 10),
                "definition": c.definition(A, 1, 10), "references": c.references(A, 0, 6),
                "inlayHint": c.inlay(A)}
    h = Client(); h.open(A, A_TEXT); h.open(X, "class Q;\n"); h.close(X)
    hist = ask(h); h.stop()
    f = Client(); f.open(A, A_TEXT)
    fresh = ask(f); f.stop()
    for k in fresh:
        if hist[k] != fresh[k]:
            bad = 1
            print("MISMATCH part 1 %s\n   after history: %r\n   fresh server : %r" % (k, hist[k], fresh[k]))

    # part 2: r.td (root, includes b.td) is closed with an unsaved reference to b.td's class
    R = os.path.join(d, "r.td"); B = os.path.join(d, "b.td")
    open(R, "w").write('include "b.td"\n'); open(B, "w").write("class X;\n")
    h = Client(); h.open(B, "class X;\n"); h.open(R, 'include "b.td"\nclass Unsaved : X;\n'); h.close(R)
    hist = h.references(B, 0, 6); h.stop()
    f = Client(); f.open(B, "class X;\n")
    fresh = f.references(B, 0, 6); f.stop()
    if hist != fresh:
        bad = 1
        print("MISMATCH part 2 references of X in b.td\n   after history: %r\n   fresh server : %r" % (hist, fresh))

    # part 3: peek into an included file and come back
    P = os.path.join(d, "p.td")
    P_TEXT = 'include "b.td"\nclass K : X;\n'
    open(P, "w").write(P_TEXT)
    h = Client(); h.open(P, P_TEXT); before = h.hover(P, 1, 10)
    h.open(B, "class X;\n"); h.close(B)
    after = {"hover": h.hover(P, 1, 10), "documentSymbol": h.symbols(P)}; h.stop()
    f = Client(); f.open(P, P_TEXT)
    fresh = {"hover": f.hover(P, 1, 10), "documentSymbol": f.symbols(P)}; f.stop()
    if after != fresh:
        bad = 1
        print("MISMATCH part 3 (open + close of the included b.td)\n   before the peek: hover=%r\n   after history : %r\n   fresh server  : %r" % (before, after, fresh))
print("violation observed" if bad else "no violation observed")
sys.exit(bad)
