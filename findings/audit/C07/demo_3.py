#!/usr/bin/env python3
"""C07 counterexample 3: the include resolution of an open document that is not (in) the current
root is never refreshed, so textDocument/documentLink on it depends on the edit history.

Part 1 - two histories, identical final state (a.td and b.td open with the same texts, b.td edited
last and therefore the root; b.td exists only in the editor):
    history 1: open a.td, open b.td
    history 2: open b.td, open a.td, didChange b.td (same text)
documentLink(a.td) answers [] after history 1 and [link to b.td] after history 2.

Part 2 - a.td includes b.td (on disk).  a.td is opened, x.td is opened (root), b.td is deleted from
disk, x.td is edited.  documentLink(a.td) still links to the deleted b.td; a fresh server given the
final state answers [].
exit 1 = violation observed, exit 0 = not observed."""
import os, sys, tempfile
sys.path.insert(0, os.path.dirname(os.path.abspath(__file__)))
from lspc import Client, uri

A_TEXT = 'include "b.td"\nclass K;\n'
B_TEXT = "class X;\n"
bad = 0
with tempfile.TemporaryDirectory() as d:
    d = os.path.realpath(d)
    A = os.path.join(d, "a.td"); B = os.path.join(d, "b.td"); X = os.path.join(d, "x.td")
    open(A, "w").write(A_TEXT)
    c = Client(); c.open(A, A_TEXT); c.open(B, B_TEXT)
    l1 = c.links(A); c.stop()
    c = Client(); c.open(B, B_TEXT); c.open(A, A_TEXT); c.change(B, B_TEXT)
    l2 = c.links(A); c.stop()
    if l1 != l2:
        bad = 1
        print("MISMATCH part 1 documentLink(a.td), same final state\n   history 1: %r\n   history 2: %r" % (l1, l2))

    open(B, "w").write(B_TEXT); open(X, "w").write("class Q;\n")
    c = Client(); c.open(A, A_TEXT); c.open(X, "class Q;\n"); c.sync(X)
    os.remove(B)
    c.change(X, "class Q; \n")
    hist = c.links(A); c.stop()
    c = Client(); c.open(A, A_TEXT); c.open(X, "class Q; \n")
    fresh = c.links(A); c.stop()
    if hist != fresh:
        bad = 1
        print("MISMATCH part 2 documentLink(a.td) after b.td was deleted\n   after history: %r\n   fresh server : %r" % (hist, fresh))
print("violation observed" if bad else "no violation observed")
sys.exit(bad)
