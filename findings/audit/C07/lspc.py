"""Minimal LSP stdio client used by the audit probes and demos (python3 stdlib only)."""
import json
import os
import subprocess
import threading
import queue
import urllib.parse

ROOT = os.path.dirname(os.path.dirname(os.path.abspath(__file__)))
SERVER = os.path.join(ROOT, "target", "debug", "lsp")


def uri(path):
    return "file://" + urllib.parse.quote(path)


class Client:
    def __init__(self, env=None):
        e = dict(os.environ)
        e.pop("INCLUDE_DIR", None)
        if env:
            e.update(env)
        self.p = subprocess.Popen(
            [SERVER], stdin=subprocess.PIPE, stdout=subprocess.PIPE,
            stderr=(None if os.environ.get("LSP_STDERR") else subprocess.DEVNULL), env=e)
        self.next_id = 1
        self.responses = {}
        self.notifications = []
        self.cv = threading.Condition()
        self.dead = False
        self.t = threading.Thread(target=self._reader, daemon=True)
        self.t.start()
        self.request("initialize", {"processId": None, "rootUri": None, "capabilities": {}})
        self.notify("initialized", {})

    def _reader(self):
        f = self.p.stdout
        try:
            while True:
                length = None
                while True:
                    line = f.readline()
                    if not line:
                        raise EOFError
                    line = line.strip()
                    if not line:
                        break
                    k, _, v = line.partition(b":")
                    if k.lower() == b"content-length":
                        length = int(v)
                body = f.read(length)
                msg = json.loads(body)
                with self.cv:
                    if "id" in msg and "method" not in msg:
                        self.responses[msg["id"]] = msg
                    else:
                        self.notifications.append(msg)
                    self.cv.notify_all()
        except Exception:
            with self.cv:
                self.dead = True
                self.cv.notify_all()

    def _send(self, msg):
        body = json.dumps(msg).encode()
        self.p.stdin.write(b"Content-Length: %d\r\n\r\n" % len(body) + body)
        self.p.stdin.flush()

    def notify(self, method, params):
        self._send({"jsonrpc": "2.0", "method": method, "params": params})

    def request(self, method, params, timeout=20):
        i = self.next_id
        self.next_id += 1
        self._send({"jsonrpc": "2.0", "id": i, "method": method, "params": params})
        with self.cv:
            ok = self.cv.wait_for(lambda: i in self.responses or self.dead, timeout)
            if i in self.responses:
                r = self.responses.pop(i)
                if "error" in r:
                    return {"__error__": r["error"]}
                return r.get("result")
            if self.dead:
                return "__DEAD__"
            return "__TIMEOUT__"

    # convenience -----------------------------------------------------------
    def open(self, path, text, version=1):
        self.texts = getattr(self, "texts", {})
        self.texts[path] = text
        self.notify("textDocument/didOpen", {"textDocument": {
            "uri": uri(path), "languageId": "tablegen", "version": version, "text": text}})

    def change(self, path, text, version=2):
        self.texts[path] = text
        self.notify("textDocument/didChange", {
            "textDocument": {"uri": uri(path), "version": version},
            "contentChanges": [{"text": text}]})

    def close(self, path):
        self.notify("textDocument/didClose", {"textDocument": {"uri": uri(path)}})

    def symbols(self, path):
        return self.request("textDocument/documentSymbol", {"textDocument": {"uri": uri(path)}})

    def links(self, path):
        return self.request("textDocument/documentLink", {"textDocument": {"uri": uri(path)}})

    def folding(self, path):
        return self.request("textDocument/foldingRange", {"textDocument": {"uri": uri(path)}})

    def hover(self, path, line, ch):
        return self.request("textDocument/hover", {
            "textDocument": {"uri": uri(path)}, "position": {"line": line, "character": ch}})

    def definition(self, path, line, ch):
        return self.request("textDocument/definition", {
            "textDocument": {"uri": uri(path)}, "position": {"line": line, "character": ch}})

    def references(self, path, line, ch):
        return self.request("textDocument/references", {
            "textDocument": {"uri": uri(path)}, "position": {"line": line, "character": ch},
            "context": {"includeDeclaration": True}})

    def completion(self, path, line, ch, trigger=None):
        p = {"textDocument": {"uri": uri(path)}, "position": {"line": line, "character": ch}}
        if trigger:
            p["context"] = {"triggerKind": 2, "triggerCharacter": trigger}
        return self.request("textDocument/completion", p)

    def inlay(self, path, l0=0, c0=0, l1=None, c1=0):
        if l1 is None:
            lines = self.texts[path].split("\n")
            l1 = len(lines) - 1
            c1 = len(lines[-1].encode("utf-16-le")) // 2
        return self.request("textDocument/inlayHint", {
            "textDocument": {"uri": uri(path)},
            "range": {"start": {"line": l0, "character": c0}, "end": {"line": l1, "character": c1}}})

    def sync(self, path):
        """a request acts as a barrier: notifications before it have been handled."""
        return self.folding(path)

    def diagnostics(self):
        """latest published diagnostics per uri (call after a sync request + small wait)."""
        import time
        time.sleep(0.3)
        out = {}
        with self.cv:
            for n in self.notifications:
                if n.get("method") == "textDocument/publishDiagnostics":
                    out[n["params"]["uri"]] = [
                        (d["range"]["start"]["line"], d["range"]["start"]["character"],
                         d["range"]["end"]["line"], d["range"]["end"]["character"], d["message"])
                        for d in n["params"]["diagnostics"]]
        return out

    def stop(self):
        try:
            self.p.kill()
        except Exception:
            pass
        self.p.wait()


def snapshot(c, paths, positions=()):
    """all position-independent answers for the given open documents + given positions."""
    snap = {}
    for p in paths:
        snap[("symbols", p)] = c.symbols(p)
        snap[("links", p)] = c.links(p)
        snap[("folding", p)] = c.folding(p)
        snap[("inlay", p)] = c.inlay(p)
    for (p, l, ch) in positions:
        snap[("hover", p, l, ch)] = c.hover(p, l, ch)
        snap[("def", p, l, ch)] = c.definition(p, l, ch)
        snap[("refs", p, l, ch)] = c.references(p, l, ch)
    d = c.diagnostics()
    # an empty list of diagnostics and no publication at all mean the same to a client
    snap["diags"] = {k: v for k, v in d.items() if v}
    return snap


def diff(a, b):
    out = []
    for k in sorted(set(a) | set(b), key=str):
        if a.get(k) != b.get(k):
            out.append((k, a.get(k), b.get(k)))
    return out
