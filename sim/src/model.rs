//! Reference side: a *fresh* `ide::AnalysisHost` over an in-memory file system (the "freshly
//! started analysis given only the final file contents" the properties name), and canonical
//! projections of ide-level results through the independent position mapper.

use std::collections::BTreeMap;
use std::path::{Path, PathBuf};
use std::sync::Arc;

use ide::analysis::{Analysis, AnalysisHost};
use ide::file_system::{FileId, FilePath, FilePosition, FileRange, FileSet, FileSystem};
use text_size::{TextRange, TextSize};

use crate::refmap::RefMap;

/// In-memory file system with a read counter and a read budget (C16 termination).
#[derive(Default, Debug)]
pub struct MemFs {
    pub files: BTreeMap<PathBuf, String>,
    file_set: FileSet,
    next_id: u32,
    pub paths: Vec<PathBuf>,
    pub reads: std::cell::Cell<u64>,
    pub read_budget: u64,
}

/// like Linux: a longer path cannot be opened
pub const PATH_MAX: usize = 4096;

pub const MEMFS_BUDGET_MSG: &str = "verif: MemFs read budget exceeded";

impl MemFs {
    pub fn new(files: BTreeMap<PathBuf, String>) -> Self {
        Self { files, read_budget: u64::MAX, ..Default::default() }
    }

    pub fn id_of(&mut self, path: &Path) -> FileId {
        self.assign_or_get_file_id(FilePath(path.to_path_buf()))
    }

    pub fn lookup(&self, path: &Path) -> Option<FileId> {
        self.file_set.file_for_path(&FilePath(path.to_path_buf()))
    }

    pub fn path_of(&self, id: FileId) -> &Path {
        &self.paths[id.0 as usize]
    }
}

impl FileSystem for MemFs {
    fn assign_or_get_file_id(&mut self, path: FilePath) -> FileId {
        match self.file_set.file_for_path(&path) {
            Some(id) => id,
            None => {
                let id = FileId(self.next_id);
                self.next_id += 1;
                self.paths.push(path.0.clone());
                self.file_set.insert(id, path);
                id
            }
        }
    }

    fn path_for_file(&self, file_id: &FileId) -> &FilePath {
        self.file_set.path_for_file(file_id)
    }

    fn read_content(&self, file_path: &FilePath) -> Option<String> {
        self.reads.set(self.reads.get() + 1);
        if self.reads.get() > self.read_budget {
            panic!("{}", MEMFS_BUDGET_MSG);
        }
        if file_path.0.as_os_str().len() >= PATH_MAX {
            return None; // ENAMETOOLONG
        }
        self.files.get(&lexical(&file_path.0)).cloned()
    }
}

/// A host analysed from scratch for one workspace state.
pub struct RefHost {
    pub host: AnalysisHost,
    pub fs: MemFs,
    pub root: FileId,
    /// text of every file id the analysis knows (root + everything resolved)
    pub texts: BTreeMap<PathBuf, String>,
    /// line tables of the independent mapper, built once per (file, text)
    pub maps: std::cell::RefCell<BTreeMap<FileId, std::rc::Rc<RefMap>>>,
}

impl RefHost {
    /// `texts`: every readable file (already overlaid by editor buffers where the caller wants
    /// that); `root`/`root_text`: the document the editor touched last and its text; `open`:
    /// every document the editor has told the server about (their texts are known to the
    /// analysis even when they are outside the root's workspace).
    pub fn fresh_with_open(
        texts: &BTreeMap<PathBuf, String>,
        open: &BTreeMap<PathBuf, String>,
        root: &Path,
        root_text: &str,
    ) -> RefHost {
        let mut fs = MemFs::new(texts.clone());
        let mut host = AnalysisHost::new();
        for (p, t) in open {
            let id = fs.id_of(p);
            host.set_file_content(id, Arc::from(t.as_str()));
        }
        let root_id = fs.id_of(root);
        host.set_file_content(root_id, Arc::from(root_text));
        host.set_root_file(&mut fs, root_id);
        let mut all = texts.clone();
        for (p, t) in open {
            all.insert(p.clone(), t.clone());
        }
        all.insert(root.to_path_buf(), root_text.to_string());
        RefHost { host, fs, root: root_id, texts: all, maps: Default::default() }
    }

    pub fn fresh(texts: &BTreeMap<PathBuf, String>, root: &Path, root_text: &str) -> RefHost {
        Self::fresh_with_open(texts, &BTreeMap::new(), root, root_text)
    }

    /// Paths of the files of the current workspace (the root and everything reachable).
    pub fn workspace(&self) -> Vec<String> {
        let mut v: Vec<String> = self.analysis().diagnostics().keys().map(|f| self.path(*f)).collect();
        v.sort();
        v
    }

    pub fn analysis(&self) -> Analysis {
        self.host.analysis()
    }

    pub fn file_id(&self, path: &str) -> Option<FileId> {
        self.fs.lookup(Path::new(path))
    }

    pub fn path(&self, id: FileId) -> String {
        norm_path(&self.fs.path_of(id).to_string_lossy())
    }

    pub fn text_of(&self, id: FileId) -> &str {
        self.texts.get(&lexical(self.fs.path_of(id))).map(|s| s.as_str()).unwrap_or("")
    }

    /// Line table of a file. Whoever replaces `texts` must clear `maps` (see `set_texts`).
    fn map_of(&self, file: FileId) -> std::rc::Rc<RefMap> {
        if let Some(m) = self.maps.borrow().get(&file) {
            return m.clone();
        }
        let m = std::rc::Rc::new(RefMap::new(self.text_of(file)));
        self.maps.borrow_mut().insert(file, m.clone());
        m
    }

    pub fn set_texts(&mut self, texts: BTreeMap<PathBuf, String>) {
        self.texts = texts;
        self.maps.borrow_mut().clear();
    }

    fn lsp_range(&self, file: FileId, range: TextRange) -> String {
        let m = self.map_of(file);
        let (sl, sc) = m.position(usize::from(range.start()));
        let (el, ec) = m.position(usize::from(range.end()));
        format!("{sl}:{sc}-{el}:{ec}")
    }

    fn lsp_pos(&self, file: FileId, pos: TextSize) -> String {
        let (l, c) = self.map_of(file).position(usize::from(pos));
        format!("{l}:{c}")
    }

    fn lsp_lines(&self, file: FileId, range: TextRange) -> String {
        let m = self.map_of(file);
        format!("{}-{}", m.position(usize::from(range.start())).0, m.position(usize::from(range.end())).0)
    }

    fn loc(&self, fr: FileRange, ranges: bool) -> String {
        if ranges {
            format!("{}@{}", self.path(fr.file), self.lsp_range(fr.file, fr.range))
        } else {
            self.path(fr.file)
        }
    }

    /// Expected diagnostics per path: sorted list of "range|message" (or just message).
    pub fn diagnostics(&self, ranges: bool) -> BTreeMap<String, Vec<String>> {
        let a = self.analysis();
        let mut out = BTreeMap::new();
        for (file, diags) in a.diagnostics() {
            let mut v: Vec<String> = diags
                .into_iter()
                .map(|d| {
                    if ranges {
                        format!("{}|{}", self.lsp_range(d.location.file, d.location.range), d.message)
                    } else {
                        d.message
                    }
                })
                .collect();
            v.sort();
            out.insert(self.path(file), v);
        }
        out
    }

    /// Diagnostics of one file as (start byte, end byte, message).
    pub fn raw_diagnostics(&self, path: &str) -> Vec<(usize, usize, String)> {
        let a = self.analysis();
        let mut out = Vec::new();
        for (file, diags) in a.diagnostics() {
            if self.path(file) != path {
                continue;
            }
            for d in diags {
                out.push((usize::from(d.location.range.start()), usize::from(d.location.range.end()), d.message));
            }
        }
        out.sort();
        out
    }

    /// Expected canonical projection of a request's response. `None` = the server is expected
    /// to answer `null`.
    pub fn expected(&self, kind: crate::scenario::ReqKind, path: &str, offset: u32, ranges: bool) -> Option<Vec<String>> {
        use crate::scenario::ReqKind::*;
        let a = self.analysis();
        let file = self.file_id(path)?;
        let pos = FilePosition::new(file, TextSize::from(offset));
        let mut out: Vec<String> = match kind {
            DocumentSymbol => {
                let syms = a.document_symbol(file)?;
                let mut v = Vec::new();
                fn walk(h: &RefHost, file: FileId, s: &ide::handlers::document_symbol::DocumentSymbol, depth: usize, ranges: bool, v: &mut Vec<String>) {
                    if ranges {
                        v.push(format!("{depth}:{}@{}", s.name, h.lsp_range(file, s.range)));
                    } else {
                        v.push(format!("{depth}:{}", s.name));
                    }
                    for c in &s.children {
                        walk(h, file, c, depth + 1, ranges, v);
                    }
                }
                for s in &syms {
                    walk(self, file, s, 0, ranges, &mut v);
                }
                v
            }
            Definition => vec![self.loc(a.goto_definition(pos)?, ranges)],
            References => a.references(pos)?.into_iter().map(|r| self.loc(r, ranges)).collect(),
            Hover => {
                let h = a.hover(pos)?;
                vec![format!("{}|{}", h.signature, h.document.unwrap_or_default())]
            }
            InlayHint => {
                // offset 0: the whole document; an even offset: [0, offset); an odd one: [offset, end)
                let len = self.text_of(file).len() as u32;
                let o = offset.min(len);
                let (st, en) = if o == 0 { (0, len) } else if o % 2 == 0 { (0, o) } else { (o, len) };
                let range = FileRange::new(file, TextRange::new(st.into(), en.into()));
                a.inlay_hint(range)?
                    .into_iter()
                    .map(|h| if ranges { format!("{}|{}", self.lsp_pos(file, h.position), h.label) } else { h.label })
                    .collect()
            }
            Completion => a.completion(pos, None)?.into_iter().map(|c| c.label).collect(),
            DocumentLink => a
                .document_link(file)?
                .into_iter()
                .map(|l| {
                    if ranges {
                        format!("{}->{}", self.lsp_range(file, l.range), self.path(l.target))
                    } else {
                        format!("->{}", self.path(l.target))
                    }
                })
                .collect(),
            FoldingRange => a
                .folding_range(file)?
                .into_iter()
                .map(|f| if ranges { self.lsp_lines(file, f.range) } else { "fold".to_string() })
                .collect(),
        };
        out.sort();
        Some(out)
    }
}

/// "/w/./b.td", "/w/sub/../b.td" and "/w/b.td" name the same file: "." segments are dropped
/// and ".." segments resolved lexically (the generators only write ".." through directories
/// that exist, so this agrees with what a real file system does).
pub fn lexical(path: &Path) -> PathBuf {
    use std::path::Component;
    let mut out = PathBuf::new();
    for c in path.components() {
        match c {
            Component::CurDir => {}
            Component::ParentDir => {
                out.pop();
            }
            c => out.push(c.as_os_str()),
        }
    }
    out
}

pub fn norm_path(p: &str) -> String {
    lexical(Path::new(p)).to_string_lossy().into_owned()
}

// ------------------------------------------------------------------ wire projections

use serde_json::Value;

fn wire_range(r: &Value) -> String {
    format!(
        "{}:{}-{}:{}",
        r["start"]["line"], r["start"]["character"], r["end"]["line"], r["end"]["character"]
    )
}

fn wire_loc(l: &Value, ranges: bool) -> String {
    let path = crate::exec::path_of_uri(l["uri"].as_str().unwrap_or(""));
    if ranges {
        format!("{}@{}", path, wire_range(&l["range"]))
    } else {
        path
    }
}

/// Canonical projection of a response `result` in the same vocabulary as `RefHost::expected`.
pub fn project_response(kind: crate::scenario::ReqKind, result: &Value, ranges: bool) -> Option<Vec<String>> {
    use crate::scenario::ReqKind::*;
    if result.is_null() {
        return None;
    }
    let mut out: Vec<String> = match kind {
        DocumentSymbol => {
            fn walk(s: &Value, depth: usize, ranges: bool, v: &mut Vec<String>) {
                let name = s["name"].as_str().unwrap_or("");
                if ranges {
                    v.push(format!("{depth}:{name}@{}", wire_range(&s["range"])));
                    // selectionRange must denote the same span
                    if s["selectionRange"] != s["range"] {
                        v.push(format!("{depth}:{name}@selection-differs"));
                    }
                } else {
                    v.push(format!("{depth}:{name}"));
                }
                if let Some(children) = s["children"].as_array() {
                    for c in children {
                        walk(c, depth + 1, ranges, v);
                    }
                }
            }
            let mut v = Vec::new();
            for s in result.as_array().cloned().unwrap_or_default() {
                walk(&s, 0, ranges, &mut v);
            }
            v
        }
        Definition => {
            if result.is_array() {
                result.as_array().unwrap().iter().map(|l| wire_loc(l, ranges)).collect()
            } else {
                vec![wire_loc(result, ranges)]
            }
        }
        References => result.as_array().cloned().unwrap_or_default().iter().map(|l| wire_loc(l, ranges)).collect(),
        Hover => {
            let c = &result["contents"];
            let parts: Vec<String> = match c {
                Value::Array(a) => a
                    .iter()
                    .map(|m| match m {
                        Value::String(s) => s.clone(),
                        o => o["value"].as_str().unwrap_or("").to_string(),
                    })
                    .collect(),
                Value::String(s) => vec![s.clone()],
                o => vec![o["value"].as_str().unwrap_or("").to_string()],
            };
            // server layout: [signature] or [signature, "***", document]
            let sig = parts.first().cloned().unwrap_or_default();
            let doc = if parts.len() >= 3 { parts[2].clone() } else { String::new() };
            vec![format!("{sig}|{doc}")]
        }
        InlayHint => result
            .as_array()
            .cloned()
            .unwrap_or_default()
            .iter()
            .map(|h| {
                let label = h["label"].as_str().unwrap_or("").to_string();
                if ranges {
                    format!("{}:{}|{}", h["position"]["line"], h["position"]["character"], label)
                } else {
                    label
                }
            })
            .collect(),
        Completion => {
            let items = if result.is_array() { result.clone() } else { result["items"].clone() };
            items.as_array().cloned().unwrap_or_default().iter().map(|c| c["label"].as_str().unwrap_or("").to_string()).collect()
        }
        DocumentLink => result
            .as_array()
            .cloned()
            .unwrap_or_default()
            .iter()
            .map(|l| {
                let target = crate::exec::path_of_uri(l["target"].as_str().unwrap_or(""));
                if ranges {
                    format!("{}->{}", wire_range(&l["range"]), target)
                } else {
                    format!("->{target}")
                }
            })
            .collect(),
        FoldingRange => result
            .as_array()
            .cloned()
            .unwrap_or_default()
            .iter()
            .map(|f| if ranges { format!("{}-{}", f["startLine"], f["endLine"]) } else { "fold".to_string() })
            .collect(),
    };
    out.sort();
    Some(out)
}

/// Projection of one publishDiagnostics `params.diagnostics` list.
pub fn project_publish(diags: &Value, ranges: bool) -> Vec<String> {
    let mut v: Vec<String> = diags
        .as_array()
        .cloned()
        .unwrap_or_default()
        .iter()
        .map(|d| {
            let msg = d["message"].as_str().unwrap_or("").to_string();
            if ranges {
                format!("{}|{}", wire_range(&d["range"]), msg)
            } else {
                msg
            }
        })
        .collect();
    v.sort();
    v
}
