//! A "case" is one explicit, replayable unit of work for a property: what to run and how it
//! is judged. Generation (from a run seed), execution + judgement, and the replay-file format.

use std::collections::BTreeMap;

use serde::{Deserialize, Serialize};

use crate::exec::{self, ExecResult, Outcome, Sched};
use crate::gen;
use crate::ide_layer::{self, C07Stats, C16Stats, Graph, HistScenario};
use crate::oracle::{self, MsgStats, Violation};
use crate::rng::{Rng, StableHasher};
use crate::scenario::{Op, Scenario};
use crate::sched::compress_plan;
use crate::world;

pub const PROPS: [&str; 6] = ["C07", "C08", "C09", "C11", "C12", "C16"];

#[derive(Clone, Debug, PartialEq, Eq, Serialize, Deserialize)]
pub enum Case {
    /// the real server under the simulator; `sched_seed` drives the scheduler unless a plan
    /// is given
    Server { scenario: Scenario, sched_seed: u64 },
    Graph(Graph),
    Hist(HistScenario),
}

#[derive(Clone, Debug, Serialize, Deserialize)]
pub struct ReplayFile {
    pub property: String,
    pub verif_seed: u64,
    pub run_index: u64,
    pub case: Case,
    /// decisions to follow (then the default policy); None: use the case's scheduler seed
    pub plan: Option<Vec<Option<u16>>>,
    pub violation: Option<Violation>,
    /// hash of the canonical event log of the run that produced `violation`
    pub log_hash: Option<u64>,
    pub minimised: bool,
    pub note: String,
}

/// What one run contributed.
#[derive(Clone, Debug, Default)]
pub struct CaseReport {
    pub violations: Vec<Violation>,
    /// not judged, with the reason (outside the property / harness)
    pub discarded: Option<String>,
    pub harness_error: Option<String>,
    /// the wall-clock watchdog fired: the run never came back
    pub hung: bool,
    /// ... and the run thread was asleep in the kernel, not spinning
    pub blocked_unshimmed: bool,
    pub outcome_class: String,
    pub shape_hash: u64,
    pub inter_hash: u64,
    pub nontrivial: bool,
    pub steps: u64,
    pub counters: BTreeMap<String, u64>,
    /// decisions actually taken (server cases)
    pub decisions: Vec<u16>,
    pub non_default: Vec<u32>,
    pub log_hash: u64,
    pub profile: String,
}

pub fn gen_case(prop: &str, run_seed: u64) -> Case {
    let mut rng = Rng::new(run_seed);
    let sched_seed = rng.next_u64();
    match prop {
        "C08" => {
            let small_k = rng.chance(1, 10);
            Case::Server { scenario: gen::gen_live(&mut rng, small_k), sched_seed }
        }
        "C11" => Case::Server { scenario: gen::gen_converge(&mut rng), sched_seed },
        "C12" if run_seed % 16 == 5 => {
            // decided outside the generator's stream, so that the other fifteen sixteenths of
            // the sample are the sessions they were before this sub-profile existed
            Case::Server { scenario: gen::gen_overlay_symlink(&mut rng), sched_seed }
        }
        "C12" => {
            let removed = rng.chance(1, 5);
            Case::Server { scenario: gen::gen_overlay(&mut rng, removed), sched_seed }
        }
        "C09" => {
            if rng.chance(7, 10) {
                Case::Server { scenario: gen::gen_wire(&mut rng), sched_seed }
            } else {
                Case::Server { scenario: gen::gen_converge(&mut rng), sched_seed }
            }
        }
        "C16" => {
            if rng.chance(1, 5) {
                Case::Server { scenario: gen_graph_live(&mut rng), sched_seed }
            } else {
                Case::Graph(ide_layer::gen_graph(&mut rng, true))
            }
        }
        "C07" => {
            if rng.chance(1, 4) {
                Case::Server { scenario: gen::gen_hist_live(&mut rng), sched_seed }
            } else {
                Case::Hist(ide_layer::gen_hist(&mut rng))
            }
        }
        _ => panic!("unknown property {prop}"),
    }
}

/// Server-layer variant of C16: the editor opens the root of a random include graph (cycles
/// included), edits it so that its include statements move, sometimes switches to another
/// file of the graph, and asks for links and outlines. Every notification must be processed
/// and every answer / publication must equal a fresh analysis of that state.
fn gen_graph_live(rng: &mut Rng) -> Scenario {
    let g = ide_layer::gen_graph(rng, false);
    let files = g.disk();
    let mut disk0 = BTreeMap::new();
    for (p, t) in &files {
        disk0.insert(p.to_string_lossy().into_owned(), world::FileState::Text(t.clone()));
    }
    for p in &g.unreadable {
        disk0.insert(p.clone(), world::FileState::Unreadable);
    }
    let mut version = 0u32;
    let mut ops = Vec::new();
    let mut open: Vec<usize> = Vec::new();
    let n_notifs = rng.range(1, 4);
    for step in 0..n_notifs {
        let i = if step == 0 || rng.chance(2, 3) { g.root } else { rng.below(g.files.len()) };
        let path = g.files[i].path.clone();
        version += 1;
        // blank lines in front move every include statement; the marker class lets the
        // closing probe see that the text was analysed
        let lead = "\n".repeat(if step == 0 { 0 } else { rng.below(4) });
        let text = format!("{lead}{}class V_{version};\n", g.render(i).0);
        if step == 0 || rng.chance(1, 2) {
            // saved: disk == editor
            ops.push(Op::DiskWrite { path: path.clone(), text: text.clone() });
            if step == 0 {
                disk0.insert(path.clone(), world::FileState::Text(text.clone()));
                ops.pop();
            }
        }
        if open.contains(&i) {
            ops.push(Op::Change { path: path.clone(), text });
        } else {
            open.push(i);
            ops.push(Op::Open { path: path.clone(), text });
        }
        for kind in [crate::scenario::ReqKind::DocumentLink, crate::scenario::ReqKind::DocumentSymbol] {
            if rng.chance(2, 3) {
                ops.push(Op::Request { kind, path: path.clone(), offset: 0 });
            }
        }
        if rng.chance(1, 2) {
            ops.push(Op::Sync);
        }
        // the disk changes at a quiescent point (files of the graph appear / disappear); the
        // next notification must see the new graph
        if step == 0 {
            if let Some(second) = &g.second_hidden {
                if !matches!(ops.last(), Some(Op::Sync)) {
                    ops.push(Op::Sync);
                }
                let mut g2 = g.clone();
                g2.hidden = second.clone();
                for i in 0..g.files.len() {
                    let p = g.files[i].path.clone();
                    let was = !g.hidden.contains(&i);
                    let is = !second.contains(&i);
                    if was && !is && !open.contains(&i) {
                        ops.push(Op::DiskRemove { path: p });
                    } else if !was && is {
                        ops.push(Op::DiskWrite { path: p, text: g.render(i).0 });
                    }
                }
            }
        }
    }
    if g.second_hidden.is_some() && n_notifs == 1 {
        // make sure something re-selects the root after the disk change
        let path = g.files[g.root].path.clone();
        version += 1;
        let text = format!("{}class V_{version};\n", g.render(g.root).0);
        ops.push(Op::Change { path: path.clone(), text });
        ops.push(Op::Request { kind: crate::scenario::ReqKind::DocumentLink, path, offset: 0 });
    }
    let mut knobs = gen::sample_knobs(rng, 16, false);
    knobs.include_dir = g.include_dir.clone();
    knobs.out_capacity = None;
    Scenario { profile: "graph-live".into(), knobs, disk0, ops }
}

fn counters_of(res: &ExecResult, scenario: &Scenario) -> BTreeMap<String, u64> {
    let c = &res.counters;
    let mut m = BTreeMap::new();
    let mut put = |k: &str, v: u64| {
        m.insert(k.to_string(), v);
    };
    put("preemption", res.trace.preemptions as u64);
    put("lock_wait", c.lock_waits);
    put("burst(writer_waited_for_live_snapshot)", c.writer_waited_for_snapshots);
    put("vfs_reader_waited", c.vfs_reader_waited);
    put("workers_spawned", c.workers_spawned);
    put("two_or_more_live_workers", (c.max_live_workers >= 2) as u64);
    put("disk_read", c.disk_reads);
    put("disk_read_missing", c.disk_read_missing);
    put("disk_read_unreadable", c.disk_read_unreadable);
    put("disk_read_through_link", c.disk_read_through_link);
    put("disk_diverged_read", c.disk_diverged_read);
    put("input_fragment", c.input_fragments);
    put("output_backpressure", c.output_backpressure);
    put("publish_points", c.publish_points);
    let mut cancel = 0;
    let mut ext_write = 0;
    let mut remove = 0;
    let mut unreadable = 0;
    let mut root_switch = 0;
    let mut last_root: Option<&String> = None;
    for op in &scenario.ops {
        match op {
            Op::Cancel { .. } => cancel += 1,
            Op::DiskWrite { .. } => ext_write += 1,
            Op::DiskRemove { .. } => remove += 1,
            Op::DiskUnreadable { .. } => unreadable += 1,
            Op::Open { path, .. } | Op::Change { path, .. } | Op::Change2 { path, .. } => {
                if last_root.map(|r| r != path).unwrap_or(false) {
                    root_switch += 1;
                }
                last_root = Some(path);
            }
            _ => {}
        }
    }
    put("cancel", cancel);
    put("disk_write", ext_write);
    put("disk_remove", remove);
    put("disk_unreadable", unreadable);
    put("root_switch", root_switch);
    put("include_dir_set", scenario.knobs.include_dir.is_some() as u64);
    m
}

fn log_hash_of(res: &ExecResult, violations: &[Violation]) -> u64 {
    let mut h = StableHasher::new();
    h.u64(world::interleaving_hash(&res.events));
    h.str(res.outcome.class());
    for d in &res.trace.decisions {
        h.u64(*d as u64);
    }
    for v in violations {
        h.str(&v.property);
        h.str(&v.class);
    }
    h.finish()
}

fn msg_stats_into(m: &mut BTreeMap<String, u64>, s: &MsgStats) {
    m.insert("responses_checked".into(), s.responses_checked);
    m.insert("nonempty_responses".into(), s.nonempty_responses);
    m.insert("cross_file_locations".into(), s.cross_file_locations);
    m.insert("publishes_checked".into(), s.publishes_checked);
    m.insert("nonempty_publishes".into(), s.nonempty_publishes);
    m.insert("outside_workspace_skipped".into(), s.outside_workspace_skipped);
    m.insert("racy_state_skipped".into(), s.racy_skipped);
    m.insert("uris_converged".into(), s.uris_converged);
    m.insert("file_left_workspace_and_was_cleared".into(), s.left_workspace);
    m.insert("fixed_problem_cleared".into(), s.cleared_after_fix);
    m.insert("outlines_read_back".into(), s.outlines_read_back);
    m.insert("definitions_read_back".into(), s.definitions_read_back);
    m.insert("answer_shapes_checked".into(), s.shapes_checked);
    m.insert("partial_inlay_hint_ranges".into(), s.partial_hint_ranges);
    m.insert("diagnostic_names_read_back".into(), s.diagnostic_names_read_back);
    m.insert("requests_after_close".into(), s.after_close_requests);
}

/// Judges one server execution for `prop`.
pub fn judge_server(prop: &str, scenario: &Scenario, res: &ExecResult, report: &mut CaseReport) {
    if let Outcome::Harness { message } = &res.outcome {
        report.harness_error = Some(message.clone());
        return;
    }
    match prop {
        "C08" => {
            let verdict = oracle::check_c08(scenario, res);
            report.violations.extend(verdict.violations);
            if verdict.known_klimit {
                report.violations.push(Violation::new(
                    "C08",
                    "deadlock-at-concurrency-limit",
                    format!(
                        "main loop stuck in poll_ready with {} requests outstanding, ConcurrencyLayer limit {}",
                        oracle::outstanding_requests(res),
                        scenario.knobs.concurrency
                    ),
                ));
            }
            if let Some(msg) = verdict.panic {
                // a panic that the sequential default schedule does not produce is caused by the
                // interleaving: that is a liveness failure of the server. Otherwise it is an
                // analysis-totality matter (C03), outside this property.
                let seq = exec::execute_isolated(scenario, Sched::Plan(vec![]));
                if matches!(seq.outcome, Outcome::Completed) {
                    report.violations.push(Violation::new("C08", "schedule-dependent-panic", msg));
                } else {
                    report.discarded = Some(format!("outside-property panic: {msg}"));
                }
            }
        }
        "C16" => match &res.outcome {
            Outcome::Completed => {
                let verdict = oracle::check_c08(scenario, res);
                for v in verdict.violations {
                    report.violations.push(Violation::new("C16", format!("server:{}", v.class), v.detail));
                }
                let model = oracle::model_of(scenario);
                let mut stats = MsgStats::default();
                let judged = std::panic::catch_unwind(std::panic::AssertUnwindSafe(|| {
                    oracle::check_messages("C16", scenario, &model, res, true, &mut stats)
                }));
                match judged {
                    Ok(vs) => {
                        for v in vs {
                            report.violations.push(Violation::new("C16", format!("server:{}", v.class), v.detail));
                        }
                    }
                    Err(p) => {
                        exec::take_last_panic();
                        report.discarded = Some(format!("reference analysis panicked: {}", ide_layer::panic_text(&p)));
                    }
                }
                msg_stats_into(&mut report.counters, &stats);
            }
            Outcome::ReadBudget | Outcome::StepLimit => {
                report.violations.push(Violation::new("C16", "non-termination", "opening the root never finished (disk-read / step budget)"));
            }
            Outcome::Deadlock { .. } => report.discarded = Some("liveness (C08's verdict)".into()),
            Outcome::Panic { message } => report.discarded = Some(format!("outside-property panic: {message}")),
            Outcome::Harness { .. } => {}
        },
        _ => {
            if !matches!(res.outcome, Outcome::Completed) {
                // liveness is C08's verdict alone; panics are analysis totality
                report.discarded = Some(format!("{}: {:?}", res.outcome.class(), res.outcome));
                return;
            }
            let model = oracle::model_of(scenario);
            let mut stats = MsgStats::default();
            let judged = std::panic::catch_unwind(std::panic::AssertUnwindSafe(|| match prop {
                "C11" => oracle::check_c11(&model, res, &mut stats),
                "C12" => {
                    let mut v = oracle::check_messages("C12", scenario, &model, res, false, &mut stats);
                    // "at every point": what the client is left showing once the server is idle
                    // is the latest text's diagnostics, whatever order the publications took
                    if !model.racy.last().copied().unwrap_or(false) {
                        for x in oracle::check_c11(&model, res, &mut stats) {
                            v.push(Violation::new("C12", format!("shown-when-idle:{}", x.class), x.detail));
                        }
                    }
                    if scenario.profile == "overlay-symlink" && !v.is_empty() {
                        // is this exactly the listed finding (an open document reached through
                        // a symbolic link is served from disk)? Then every message must agree
                        // with a reference that reads through links to the disk - and nothing
                        // else may be wrong
                        let alt = model.with_link_bypass();
                        let mut alt_stats = MsgStats::default();
                        let mut w = oracle::check_messages("C12", scenario, &alt, res, false, &mut alt_stats);
                        if !alt.racy.last().copied().unwrap_or(false) {
                            w.extend(oracle::check_c11(&alt, res, &mut alt_stats));
                        }
                        if w.is_empty() {
                            let first = v[0].detail.clone();
                            v = vec![Violation::new("C12", "open-buffer-bypassed-through-symlink", first)];
                        }
                    }
                    v
                }
                "C07" => {
                    let mut v = oracle::check_messages("C07", scenario, &model, res, true, &mut stats);
                    for x in v.iter_mut() {
                        x.class = format!("history-dependent:server:{}", x.class);
                    }
                    v
                }
                "C09" => oracle::check_messages("C09", scenario, &model, res, true, &mut stats),
                _ => vec![],
            }));
            match judged {
                Ok(v) => report.violations.extend(v),
                Err(p) => {
                    exec::take_last_panic();
                    report.discarded = Some(format!("reference analysis panicked: {}", ide_layer::panic_text(&p)));
                }
            }
            msg_stats_into(&mut report.counters, &stats);
        }
    }
}

/// Runs a case (optionally under a plan) and judges it.
pub fn run_case(prop: &str, case: &Case, plan: Option<&[Option<u16>]>) -> CaseReport {
    let mut report = CaseReport::default();
    match case {
        Case::Server { scenario, sched_seed } => {
            let sched = match plan {
                Some(p) => Sched::Plan(p.to_vec()),
                None => Sched::Seed(*sched_seed),
            };
            let res = exec::execute(scenario, sched);
            report.profile = scenario.profile.clone();
            report.outcome_class = res.outcome.class().to_string();
            report.shape_hash = scenario.shape_hash();
            report.inter_hash = world::interleaving_hash(&res.events);
            report.steps = res.steps as u64;
            report.counters = counters_of(&res, scenario);
            report.nontrivial = res.trace.preemptions > 0
                || res.counters.lock_waits > 0
                || scenario.ops.iter().any(|o| o.is_disk() || matches!(o, Op::Cancel { .. }));
            judge_server(prop, scenario, &res, &mut report);
            if plan.is_some() && res.trace.diverged {
                report.counters.insert("plan_diverged".into(), 1);
            }
            report.log_hash = log_hash_of(&res, &report.violations);
            report.decisions = res.trace.decisions;
            report.non_default = res.trace.non_default;
        }
        Case::Graph(g) => {
            let mut stats = C16Stats::default();
            report.profile = "graph".into();
            report.violations = ide_layer::check_c16(g, &mut stats);
            report.outcome_class = "completed".into();
            report.shape_hash = g.shape_hash();
            report.inter_hash = 0;
            report.nontrivial = g.files.iter().any(|f| !f.includes.is_empty());
            report.steps = stats.reads_total;
            let c = &mut report.counters;
            c.insert("cycle".into(), stats.cycles);
            c.insert("self_loop".into(), stats.self_loops);
            c.insert("diamond".into(), stats.diamonds);
            c.insert("same_name_resolves_differently".into(), stats.name_collisions);
            c.insert("missing_target".into(), stats.missing_targets);
            c.insert("unreadable_target".into(), stats.unreadable_targets);
            c.insert("include_dir_hit".into(), stats.include_dir_hits);
            c.insert("nested_include".into(), stats.nested_includes);
            c.insert("root_reselected_after_disk_change".into(), stats.reselect);
            c.insert("file_appeared".into(), stats.file_appeared);
            c.insert("file_disappeared".into(), stats.file_disappeared);
            c.insert("disk_read".into(), stats.reads_total);
            let mut h = StableHasher::new();
            h.u64(report.shape_hash);
            for v in &report.violations {
                h.str(&v.class);
            }
            report.log_hash = h.finish();
        }
        Case::Hist(sc) => {
            let mut stats = C07Stats::default();
            report.profile = "hist".into();
            report.violations = ide_layer::check_c07(sc, &mut stats);
            report.outcome_class = "completed".into();
            report.shape_hash = sc.shape_hash();
            report.nontrivial = sc.ops.len() >= 2;
            report.steps = stats.comparisons;
            if stats.discarded_fresh_panic > 0 {
                report.discarded = Some("fresh analysis panicked (analysis totality, not this property)".into());
            }
            let c = &mut report.counters;
            c.insert("comparison".into(), stats.comparisons);
            c.insert("query".into(), stats.queries);
            c.insert("root_switch".into(), stats.root_switches);
            c.insert("include_added".into(), stats.include_added);
            c.insert("include_removed".into(), stats.include_removed);
            c.insert("file_disappeared".into(), stats.file_disappeared);
            c.insert("file_reappeared".into(), stats.file_reappeared);
            c.insert("disk_unreadable".into(), stats.unreadable);
            c.insert("workspace_shrank".into(), stats.workspace_shrank);
            let mut h = StableHasher::new();
            h.u64(report.shape_hash);
            for v in &report.violations {
                h.str(&v.class);
            }
            report.log_hash = h.finish();
        }
    }
    report
}

/// The plan that reproduces a finished run exactly.
pub fn plan_of(report: &CaseReport) -> Vec<Option<u16>> {
    compress_plan(&report.decisions, &report.non_default)
}
