//! The simulated world of one execution: ghost locks, disk, pipes, worker registry, event log.
//!
//! All tasks of one shuttle execution are coroutines on ONE OS thread, so the state lives in a
//! `thread_local!` `RefCell`. No borrow is ever held across a scheduling point. Blocking is done
//! with shuttle's `park`/`unpark` (a parked task is "blocked" for shuttle's deadlock detection).

use std::cell::RefCell;
use std::collections::{BTreeMap, VecDeque};
use std::path::{Path, PathBuf};
use std::pin::Pin;
use std::rc::Rc;
use std::task::{Context, Poll, Waker};

use ide::verif_hooks::{Guard, LockId, SimHooks};

use crate::rng::StableHasher;

pub const READ_BUDGET_MSG: &str = "verif: disk read budget exceeded";

#[derive(Clone, Debug, PartialEq, Eq, serde::Serialize, serde::Deserialize)]
pub enum FileState {
    Text(String),
    /// exists but `read_to_string` fails (EIO / EACCES / invalid UTF-8)
    Unreadable,
    /// a symbolic link to another path of the simulated disk: reading it reads the target
    Link(String),
}

#[derive(Clone, Copy, Debug, PartialEq, Eq)]
pub enum LockEvKind {
    Wait,
    Acquire,
    Release,
}

#[derive(Clone, Debug)]
pub enum Ev {
    Lock { task: usize, lock: LockId, excl: bool, kind: LockEvKind },
    Spawn { task: usize, worker: usize },
    Point { task: usize, label: &'static str },
    Cond { task: usize, cond: usize, kind: &'static str },
    DiskRead { task: usize, path: PathBuf, found: bool },
    ClientSend { op: usize },
    ServerRead { bytes: usize },
    ServerWrite { bytes: usize },
    ClientRecv { bytes: usize },
}

#[derive(Default, Clone, Debug)]
pub struct Counters {
    pub sched_points: u64,
    pub lock_waits: u64,
    pub writer_waited_for_snapshots: u64,
    pub vfs_reader_waited: u64,
    pub workers_spawned: u64,
    pub max_live_workers: u64,
    pub disk_reads: u64,
    pub disk_read_missing: u64,
    pub disk_read_unreadable: u64,
    pub disk_read_through_link: u64,
    pub disk_diverged_read: u64,
    pub input_fragments: u64,
    pub output_backpressure: u64,
    pub publish_points: u64,
}

#[derive(Default)]
struct GhostRw {
    /// (token, owner task)
    readers: Vec<(u64, usize)>,
    writer: Option<usize>,
    waiting_writers: usize,
    waiters: Vec<shuttle::thread::Thread>,
    writer_pref: bool,
}

impl GhostRw {
    fn admissible(&self, excl: bool) -> bool {
        if excl {
            self.readers.is_empty() && self.writer.is_none()
        } else {
            self.writer.is_none() && !(self.writer_pref && self.waiting_writers > 0)
        }
    }
}

#[derive(Default)]
pub struct InPipe {
    chunks: VecDeque<Vec<u8>>,
    closed: bool,
    reader: Option<Waker>,
}

#[derive(Default)]
pub struct OutPipe {
    buf: VecDeque<u8>,
    /// write calls the pipe currently holds (the unit of `capacity`)
    held_writes: usize,
    /// bytes the client has read off the pipe but not yet parsed
    client_buf: VecDeque<u8>,
    capacity: Option<usize>,
    closed: bool,
    writer: Option<Waker>,
    client_waiters: Vec<shuttle::thread::Thread>,
}

pub struct SimState {
    locks: BTreeMap<LockId, GhostRw>,
    pub disk: BTreeMap<PathBuf, FileState>,
    /// texts the editor currently has open (only used to count `disk_diverged_read`)
    pub editor_open: BTreeMap<PathBuf, String>,
    pub read_budget: u64,
    stdin: InPipe,
    stdout: OutPipe,
    workers: Vec<shuttle::thread::JoinHandle<()>>,
    future_workers: Vec<shuttle::future::JoinHandle<()>>,
    live_workers: u64,
    pub events: Vec<Ev>,
    pub counters: Counters,
    /// addresses of `LockId::Other` locks in order of first use (addresses differ between
    /// processes; the index does not)
    other_locks: Vec<usize>,
    /// condition variables by address, in order of first use; waiters: (ticket, thread, notified)
    conds: Vec<usize>,
    cond_waiters: BTreeMap<usize, Vec<(u64, shuttle::thread::Thread, bool)>>,
    next_token: u64,
    pub torn_down: bool,
    pub stack_size: usize,
}

pub struct Sim {
    st: RefCell<SimState>,
}

thread_local! {
    static SIM: RefCell<Option<Rc<Sim>>> = const { RefCell::new(None) };
}

pub fn current() -> Option<Rc<Sim>> {
    SIM.with(|s| s.borrow().clone())
}

pub fn me() -> usize {
    usize::from(shuttle::current::me())
}

fn me_or(default: usize) -> usize {
    if std::thread::panicking() {
        return default;
    }
    shuttle::current::get_current_task().map(usize::from).unwrap_or(default)
}

pub struct WorldCfg {
    pub disk: BTreeMap<PathBuf, FileState>,
    pub out_capacity: Option<usize>,
    pub read_budget: u64,
    pub stack_size: usize,
}

impl Sim {
    /// Creates the world and makes it the current one of this OS thread.
    pub fn install(cfg: WorldCfg) -> Rc<Sim> {
        let mut locks = BTreeMap::new();
        locks.insert(LockId::SalsaRevision, GhostRw::default());
        // std's RwLock (futex implementation) is writer-preferring: a reader that arrives while
        // a writer waits is queued.
        locks.insert(LockId::Vfs, GhostRw { writer_pref: true, ..Default::default() });
        let sim = Rc::new(Sim {
            st: RefCell::new(SimState {
                locks,
                disk: cfg.disk,
                editor_open: BTreeMap::new(),
                read_budget: cfg.read_budget,
                stdin: InPipe::default(),
                stdout: OutPipe { capacity: cfg.out_capacity, ..Default::default() },
                workers: Vec::new(),
                future_workers: Vec::new(),
                live_workers: 0,
                events: Vec::new(),
                counters: Counters::default(),
                other_locks: Vec::new(),
                conds: Vec::new(),
                cond_waiters: BTreeMap::new(),
                next_token: 0,
                torn_down: false,
                stack_size: cfg.stack_size,
            }),
        });
        SIM.with(|s| *s.borrow_mut() = Some(sim.clone()));
        sim
    }

    pub fn uninstall() {
        SIM.with(|s| {
            if let Some(sim) = s.borrow().as_ref() {
                sim.st.borrow_mut().torn_down = true;
            }
            *s.borrow_mut() = None;
        });
    }

    pub fn with<R>(&self, f: impl FnOnce(&mut SimState) -> R) -> R {
        f(&mut self.st.borrow_mut())
    }

    fn live(&self) -> bool {
        !self.st.borrow().torn_down && !std::thread::panicking()
    }

    /// A place where the scheduler may switch tasks.
    pub fn sched_point(&self) {
        if !self.live() {
            return;
        }
        self.st.borrow_mut().counters.sched_points += 1;
        shuttle::thread::yield_now();
    }

    pub fn log(&self, ev: Ev) {
        self.st.borrow_mut().events.push(ev);
    }

    // ---------------------------------------------------------------- ghost locks

    /// Returns the token identifying this hold.
    /// Replaces the address in `LockId::Other` by a small stable index.
    fn canonical(&self, lock: LockId) -> LockId {
        match lock {
            LockId::Other(addr) => {
                let mut st = self.st.borrow_mut();
                let idx = match st.other_locks.iter().position(|a| *a == addr) {
                    Some(i) => i,
                    None => {
                        st.other_locks.push(addr);
                        st.other_locks.len() - 1
                    }
                };
                let id = LockId::Other(idx);
                st.locks.entry(id).or_default();
                id
            }
            l => l,
        }
    }

    pub fn acquire(&self, lock: LockId, excl: bool) -> (u64, LockId) {
        let lock = self.canonical(lock);
        let task = me();
        let token = {
            let mut st = self.st.borrow_mut();
            st.next_token += 1;
            st.next_token
        };
        self.sched_point();
        let mut waited = false;
        loop {
            let ok = {
                let mut st = self.st.borrow_mut();
                let live_workers = st.live_workers;
                let l = st.locks.get_mut(&lock).unwrap();
                if l.admissible(excl) {
                    if excl {
                        l.writer = Some(task);
                    } else {
                        l.readers.push((token, task));
                    }
                    if waited && excl {
                        l.waiting_writers -= 1;
                    }
                    true
                } else {
                    if !waited {
                        if excl {
                            l.waiting_writers += 1;
                        }
                        st.counters.lock_waits += 1;
                        if excl && lock == LockId::SalsaRevision && live_workers > 0 {
                            st.counters.writer_waited_for_snapshots += 1;
                        }
                        if !excl && lock == LockId::Vfs {
                            st.counters.vfs_reader_waited += 1;
                        }
                        st.events.push(Ev::Lock { task, lock, excl, kind: LockEvKind::Wait });
                    }
                    let l = st.locks.get_mut(&lock).unwrap();
                    l.waiters.push(shuttle::thread::current());
                    false
                }
            };
            if ok {
                break;
            }
            waited = true;
            shuttle::thread::park();
        }
        self.log(Ev::Lock { task, lock, excl, kind: LockEvKind::Acquire });
        (token, lock)
    }

    pub fn release(&self, lock: LockId, excl: bool, token: u64) {
        let task = me_or(usize::MAX);
        if self.st.borrow().torn_down {
            return;
        }
        let waiters = {
            let mut st = self.st.borrow_mut();
            let l = st.locks.get_mut(&lock).unwrap();
            if excl {
                l.writer = None;
            } else if let Some(i) = l.readers.iter().position(|(t, _)| *t == token) {
                // (a snapshot is usually dropped by a different task than the one that made it)
                l.readers.remove(i);
            }
            let w = std::mem::take(&mut l.waiters);
            st.events.push(Ev::Lock { task, lock, excl, kind: LockEvKind::Release });
            w
        };
        if !self.live() {
            return;
        }
        for w in waiters {
            w.unpark();
        }
        self.sched_point();
    }

    // ---------------------------------------------------------------- condition variables

    fn cond_index(&self, addr: usize) -> usize {
        let mut st = self.st.borrow_mut();
        match st.conds.iter().position(|a| *a == addr) {
            Some(i) => i,
            None => {
                st.conds.push(addr);
                st.conds.len() - 1
            }
        }
    }

    /// Registers the current task as a waiter; the caller releases its mutex afterwards.
    pub fn cond_prepare(&self, addr: usize) -> u64 {
        let c = self.cond_index(addr);
        let mut st = self.st.borrow_mut();
        st.next_token += 1;
        let ticket = st.next_token;
        st.cond_waiters.entry(c).or_default().push((ticket, shuttle::thread::current(), false));
        st.events.push(Ev::Cond { task: me(), cond: c, kind: "wait" });
        ticket
    }

    pub fn cond_block(&self, addr: usize, ticket: u64) {
        let c = self.cond_index(addr);
        loop {
            let done = {
                let mut st = self.st.borrow_mut();
                let ws = st.cond_waiters.entry(c).or_default();
                match ws.iter().position(|w| w.0 == ticket) {
                    Some(i) if ws[i].2 => {
                        ws.remove(i);
                        true
                    }
                    Some(_) => false,
                    None => true,
                }
            };
            if done {
                break;
            }
            shuttle::thread::park();
        }
        self.log(Ev::Cond { task: me(), cond: c, kind: "woken" });
    }

    pub fn cond_notify(&self, addr: usize, all: bool) {
        let c = self.cond_index(addr);
        let woken: Vec<shuttle::thread::Thread> = {
            let mut st = self.st.borrow_mut();
            let ws = st.cond_waiters.entry(c).or_default();
            let mut out = Vec::new();
            for w in ws.iter_mut() {
                if !w.2 {
                    w.2 = true;
                    out.push(w.1.clone());
                    if !all {
                        break;
                    }
                }
            }
            st.events.push(Ev::Cond { task: me(), cond: c, kind: if all { "notify_all" } else { "notify_one" } });
            out
        };
        for t in woken {
            t.unpark();
        }
        self.sched_point();
    }

    /// Human-readable holders/waiters, for deadlock reports.
    pub fn lock_report(&self) -> Vec<String> {
        let st = self.st.borrow();
        let mut held: BTreeMap<usize, Vec<String>> = BTreeMap::new();
        for (id, l) in &st.locks {
            for (_, r) in &l.readers {
                held.entry(*r).or_default().push(format!("{id:?}(R)"));
            }
            if let Some(w) = l.writer {
                held.entry(w).or_default().push(format!("{id:?}(W)"));
            }
        }
        // the last Wait event of a task that has no later Acquire tells what it waits for
        let mut waits: BTreeMap<usize, String> = BTreeMap::new();
        for ev in &st.events {
            if let Ev::Lock { task, lock, excl, kind } = ev {
                match kind {
                    LockEvKind::Wait => {
                        waits.insert(*task, format!("{lock:?}({})", if *excl { "W" } else { "R" }));
                    }
                    LockEvKind::Acquire => {
                        waits.remove(task);
                    }
                    LockEvKind::Release => {}
                }
            }
        }
        for ev in &st.events {
            if let Ev::Cond { task, cond, kind } = ev {
                match *kind {
                    "wait" => {
                        waits.insert(*task, format!("Condvar({cond})"));
                    }
                    "woken" => {
                        waits.remove(task);
                    }
                    _ => {}
                }
            }
        }
        let mut tasks: Vec<usize> = held.keys().chain(waits.keys()).copied().collect();
        tasks.sort();
        tasks.dedup();
        tasks
            .into_iter()
            .map(|t| {
                format!(
                    "{} holds [{}] waits {}",
                    role_name(t),
                    held.get(&t).map(|v| v.join(",")).unwrap_or_default(),
                    waits.get(&t).cloned().unwrap_or_else(|| "-".into())
                )
            })
            .collect()
    }

    // ---------------------------------------------------------------- workers

    pub fn spawn_worker(self: &Rc<Self>, f: Box<dyn FnOnce() + Send>) {
        let task = me();
        let (worker, stack) = {
            let mut st = self.st.borrow_mut();
            st.counters.workers_spawned += 1;
            st.live_workers += 1;
            st.counters.max_live_workers = st.counters.max_live_workers.max(st.live_workers);
            (st.counters.workers_spawned as usize - 1, st.stack_size)
        };
        {
            // the snapshot the handler has just taken travels with the closure: attribute it
            // to the worker (task ids are assigned in spawn order: client 0, main loop 1, ...)
            let mut st = self.st.borrow_mut();
            let l = st.locks.get_mut(&LockId::SalsaRevision).unwrap();
            if let Some(r) = l.readers.iter_mut().rev().find(|(_, o)| *o == task) {
                r.1 = worker + 2;
            }
        }
        self.log(Ev::Spawn { task, worker });
        let h = shuttle::thread::Builder::new()
            .stack_size(stack)
            .spawn(move || {
                if let Some(sim) = current() {
                    sim.point("worker_start");
                }
                f();
                if let Some(sim) = current() {
                    sim.st.borrow_mut().live_workers -= 1;
                    sim.point("worker_end");
                }
            })
            .expect("spawn worker");
        self.st.borrow_mut().workers.push(h);
    }

    pub fn take_workers(&self) -> Vec<shuttle::thread::JoinHandle<()>> {
        std::mem::take(&mut self.st.borrow_mut().workers)
    }

    pub fn take_future_workers(&self) -> Vec<shuttle::future::JoinHandle<()>> {
        std::mem::take(&mut self.st.borrow_mut().future_workers)
    }

    /// Stands in for `tokio::spawn`: the future runs on a simulator task of its own.
    pub fn spawn_future(self: &Rc<Self>, f: std::pin::Pin<Box<dyn std::future::Future<Output = ()> + Send>>) {
        let task = me();
        let worker = {
            let mut st = self.st.borrow_mut();
            st.counters.workers_spawned += 1;
            st.counters.workers_spawned as usize - 1
        };
        self.log(Ev::Spawn { task, worker });
        let h = shuttle::future::spawn(f);
        self.st.borrow_mut().future_workers.push(h);
    }

    pub fn point(&self, label: &'static str) {
        let task = me();
        if label == "publish" {
            self.st.borrow_mut().counters.publish_points += 1;
        }
        self.log(Ev::Point { task, label });
        self.sched_point();
    }

    // ---------------------------------------------------------------- disk

    pub fn read_file(&self, path: &Path) -> Option<String> {
        let task = me();
        self.sched_point();
        let mut st = self.st.borrow_mut();
        st.counters.disk_reads += 1;
        if st.counters.disk_reads > st.read_budget {
            drop(st);
            panic!("{}", READ_BUDGET_MSG);
        }
        let too_long = path.as_os_str().len() >= crate::model::PATH_MAX; // ENAMETOOLONG
        let path = &crate::model::lexical(path);
        // follow symbolic links (a few hops at most, like ELOOP)
        let mut entry = st.disk.get(path).filter(|_| !too_long).cloned();
        let mut hops = 0;
        while let Some(FileState::Link(target)) = &entry {
            hops += 1;
            entry = if hops > 8 { None } else { st.disk.get(&crate::model::lexical(Path::new(target))).cloned() };
        }
        if hops > 0 {
            st.counters.disk_read_through_link += 1;
        }
        let res = match entry {
            Some(FileState::Link(_)) => None,
            Some(FileState::Text(t)) => Some(t),
            Some(FileState::Unreadable) => {
                st.counters.disk_read_unreadable += 1;
                None
            }
            None => {
                st.counters.disk_read_missing += 1;
                None
            }
        };
        if let (Some(disk_text), Some(open_text)) = (&res, st.editor_open.get(path)) {
            if disk_text != open_text {
                st.counters.disk_diverged_read += 1;
            }
        }
        st.events.push(Ev::DiskRead { task, path: path.to_path_buf(), found: res.is_some() });
        res
    }

    // ---------------------------------------------------------------- pipes, client side

    /// Client writes one chunk of bytes to the server's stdin.
    pub fn client_write(&self, chunk: Vec<u8>) {
        let waker = {
            let mut st = self.st.borrow_mut();
            st.stdin.chunks.push_back(chunk);
            st.stdin.reader.take()
        };
        if let Some(w) = waker {
            w.wake();
        }
        self.sched_point();
    }

    pub fn client_close_stdin(&self) {
        let waker = {
            let mut st = self.st.borrow_mut();
            st.stdin.closed = true;
            st.stdin.reader.take()
        };
        if let Some(w) = waker {
            w.wake();
        }
        self.sched_point();
    }

    /// Client blocks until one complete framed message is available; `None` after the server
    /// closed its stdout. Like a real reader it first drains whatever bytes the pipe holds
    /// (which frees pipe capacity), then looks for a complete frame in its private buffer.
    pub fn client_read_message(&self) -> Option<Vec<u8>> {
        loop {
            let (res, waker) = {
                let mut st = self.st.borrow_mut();
                let mut waker = None;
                if !st.stdout.buf.is_empty() {
                    st.stdout.held_writes = 0;
                    let drained: Vec<u8> = st.stdout.buf.drain(..).collect();
                    st.stdout.client_buf.extend(drained);
                    waker = st.stdout.writer.take();
                }
                match take_frame(&mut st.stdout.client_buf) {
                    Some(body) => {
                        st.events.push(Ev::ClientRecv { bytes: body.len() });
                        (Some(Some(body)), waker)
                    }
                    None if st.stdout.closed => (Some(None), waker),
                    None => {
                        st.stdout.client_waiters.push(shuttle::thread::current());
                        (None, waker)
                    }
                }
            };
            if let Some(w) = waker {
                w.wake();
            }
            match res {
                Some(body) => {
                    self.sched_point();
                    return body;
                }
                None => shuttle::thread::park(),
            }
        }
    }
}

/// Pops one `Content-Length` framed message off the front of `buf`, if complete.
fn take_frame(buf: &mut VecDeque<u8>) -> Option<Vec<u8>> {
    let bytes = buf.make_contiguous();
    let header_end = bytes.windows(4).position(|w| w == b"\r\n\r\n")?;
    let header = std::str::from_utf8(&bytes[..header_end]).ok()?;
    let mut len = None;
    for line in header.split("\r\n") {
        if let Some((k, v)) = line.split_once(": ") {
            if k.eq_ignore_ascii_case("Content-Length") {
                len = v.trim().parse::<usize>().ok();
            }
        }
    }
    let len = len?;
    let start = header_end + 4;
    if bytes.len() < start + len {
        return None;
    }
    let body = bytes[start..start + len].to_vec();
    buf.drain(..start + len);
    Some(body)
}

pub fn role_name(task: usize) -> String {
    match task {
        0 => "client".into(),
        1 => "main-loop".into(),
        n => format!("worker#{}", n - 2),
    }
}

// -------------------------------------------------------------------- pipes, server side

pub struct ServerStdin;
pub struct ServerStdout;

impl futures::io::AsyncRead for ServerStdin {
    fn poll_read(self: Pin<&mut Self>, cx: &mut Context<'_>, buf: &mut [u8]) -> Poll<std::io::Result<usize>> {
        let sim = current().expect("no simulation");
        let mut st = sim.st.borrow_mut();
        if let Some(front) = st.stdin.chunks.front_mut() {
            let n = front.len().min(buf.len());
            buf[..n].copy_from_slice(&front[..n]);
            if n == front.len() {
                st.stdin.chunks.pop_front();
            } else {
                front.drain(..n);
            }
            st.events.push(Ev::ServerRead { bytes: n });
            return Poll::Ready(Ok(n));
        }
        if st.stdin.closed {
            return Poll::Ready(Ok(0));
        }
        st.stdin.reader = Some(cx.waker().clone());
        Poll::Pending
    }
}

impl futures::io::AsyncWrite for ServerStdout {
    fn poll_write(self: Pin<&mut Self>, cx: &mut Context<'_>, data: &[u8]) -> Poll<std::io::Result<usize>> {
        let sim = current().expect("no simulation");
        let waiters = {
            let mut st = sim.st.borrow_mut();
            // Capacity is counted in write calls, not bytes: which of two equally permitted
            // messages is written first depends on HashMap iteration order inside the server
            // (uncontrolled), and a byte budget would let that order decide when the writer
            // blocks, i.e. leak into the schedule.
            let full = match st.stdout.capacity {
                Some(cap) => st.stdout.held_writes >= cap,
                None => false,
            };
            if full {
                st.counters.output_backpressure += 1;
                st.stdout.writer = Some(cx.waker().clone());
                // a client parked in a read drains the pipe when it runs again
                let w = std::mem::take(&mut st.stdout.client_waiters);
                drop(st);
                for t in w {
                    t.unpark();
                }
                return Poll::Pending;
            }
            let n = data.len();
            st.stdout.held_writes += 1;
            st.stdout.buf.extend(&data[..n]);
            st.events.push(Ev::ServerWrite { bytes: n });
            (n, std::mem::take(&mut st.stdout.client_waiters))
        };
        for t in waiters.1 {
            t.unpark();
        }
        Poll::Ready(Ok(waiters.0))
    }

    fn poll_flush(self: Pin<&mut Self>, _: &mut Context<'_>) -> Poll<std::io::Result<()>> {
        Poll::Ready(Ok(()))
    }

    fn poll_close(self: Pin<&mut Self>, _: &mut Context<'_>) -> Poll<std::io::Result<()>> {
        let sim = current().expect("no simulation");
        let waiters = {
            let mut st = sim.st.borrow_mut();
            st.stdout.closed = true;
            std::mem::take(&mut st.stdout.client_waiters)
        };
        for t in waiters {
            t.unpark();
        }
        Poll::Ready(Ok(()))
    }
}

impl Drop for ServerStdout {
    /// The server going away closes its end of the pipe.
    fn drop(&mut self) {
        let Some(sim) = current() else { return };
        let waiters = {
            let mut st = sim.st.borrow_mut();
            if st.torn_down {
                return;
            }
            st.stdout.closed = true;
            std::mem::take(&mut st.stdout.client_waiters)
        };
        if std::thread::panicking() {
            return;
        }
        for t in waiters {
            t.unpark();
        }
    }
}

// -------------------------------------------------------------------- hooks

struct GhostGuard {
    lock: LockId,
    excl: bool,
    token: u64,
}

impl Drop for GhostGuard {
    fn drop(&mut self) {
        if let Some(sim) = current() {
            sim.release(self.lock, self.excl, self.token);
        }
    }
}

pub struct Hooks;

impl SimHooks for Hooks {
    fn lock_acquire(&self, lock: LockId, excl: bool) -> Guard {
        match current() {
            // outside a simulated execution (reference hosts, ide-layer checks): no ghost
            None => Box::new(()),
            Some(sim) => {
                let (token, lock) = sim.acquire(lock, excl);
                Box::new(GhostGuard { lock, excl, token })
            }
        }
    }

    fn spawn(&self, f: Box<dyn FnOnce() + Send>) {
        match current() {
            None => f(),
            Some(sim) => sim.spawn_worker(f),
        }
    }

    fn read_file(&self, path: &Path) -> Option<String> {
        match current() {
            None => None,
            Some(sim) => sim.read_file(path),
        }
    }

    fn point(&self, label: &'static str) {
        if let Some(sim) = current() {
            sim.point(label);
        }
    }

    fn spawn_future(&self, f: std::pin::Pin<Box<dyn std::future::Future<Output = ()> + Send>>) {
        match current() {
            Some(sim) => sim.spawn_future(f),
            None => panic!("verif: spawn_future outside a simulation"),
        }
    }

    fn cond_prepare(&self, cond: usize) -> u64 {
        current().map(|sim| sim.cond_prepare(cond)).unwrap_or(0)
    }

    fn cond_block(&self, cond: usize, ticket: u64) {
        if let Some(sim) = current() {
            sim.cond_block(cond, ticket);
        }
    }

    fn cond_notify(&self, cond: usize, all: bool) {
        if let Some(sim) = current() {
            sim.cond_notify(cond, all);
        }
    }
}

pub fn install_hooks() {
    ide::verif_hooks::install(Box::new(Hooks));
}

/// Hash of the lock-event sequence: the "interleaving" measure of a run.
pub fn interleaving_hash(events: &[Ev]) -> u64 {
    let mut h = StableHasher::new();
    for ev in events {
        match ev {
            Ev::Lock { task, lock, excl, kind } => {
                h.u64(1);
                h.u64(*task as u64);
                h.u64(match lock {
                    LockId::SalsaRevision => 0,
                    LockId::Vfs => 1,
                    LockId::Other(i) => 2 + *i as u64,
                });
                h.u64(*excl as u64);
                h.u64(*kind as u64);
            }
            Ev::Spawn { task, worker } => {
                h.u64(2);
                h.u64(*task as u64);
                h.u64(*worker as u64);
            }
            Ev::Point { task, label } => {
                h.u64(3);
                h.u64(*task as u64);
                h.str(label);
            }
            Ev::DiskRead { task, .. } => {
                h.u64(4);
                h.u64(*task as u64);
            }
            Ev::Cond { task, cond, kind } => {
                h.u64(5);
                h.u64(*task as u64);
                h.u64(*cond as u64);
                h.str(kind);
            }
            _ => {}
        }
    }
    h.finish()
}
