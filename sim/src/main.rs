mod exec;
mod refmap;
mod rng;
mod scenario;
mod sched;
mod world;

use scenario::*;
use std::collections::BTreeMap;

fn main() {
    let mut disk0 = BTreeMap::new();
    disk0.insert("/w/b.td".to_string(), world::FileState::Text("class B;\n".into()));
    let sc = Scenario {
        profile: "live".into(),
        knobs: Knobs { concurrency: std::env::var("K").ok().and_then(|k| k.parse().ok()).unwrap_or(4), out_capacity: None, max_chunks: 3, chunk_seed: 1, strategy: sched::Strategy::Random, include_dir: None },
        disk0,
        ops: vec![
            Op::Open { path: "/w/a.td".into(), text: "include \"b.td\"\nclass A : B;\n".into() },
            Op::Request { kind: ReqKind::Definition, path: "/w/a.td".into(), offset: 25 },
            Op::Request { kind: ReqKind::Hover, path: "/w/a.td".into(), offset: 25 },
            Op::Request { kind: ReqKind::DocumentSymbol, path: "/w/a.td".into(), offset: 25 },
            Op::Change { path: "/w/a.td".into(), text: "include \"b.td\"\nclass A2 : B;\n".into() },
        ],
    };
    let t0 = std::time::Instant::now();
    let mut classes: BTreeMap<String, usize> = BTreeMap::new();
    let n = 300;
    for seed in 0..n {
        let r = exec::execute_isolated(&sc, exec::Sched::Seed(seed));
        *classes.entry(r.outcome.class().to_string()).or_default() += 1;
        if seed < 3 || (r.outcome.class() != "completed" && classes[r.outcome.class()] <= 2) {
            println!("seed {seed}: {:?} steps={} recv={} counters={:?}", r.outcome, r.steps, r.history.received.len(), r.counters);
        }
    }
    println!("{classes:?} {:?}/run", t0.elapsed() / n as u32);
}
