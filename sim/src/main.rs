//! Deterministic simulator for arata-nvm/tablegen-lsp. See /verif/DESIGN.md.

mod cases;
mod driver;
mod exec;
mod gen;
mod ide_layer;
mod minimize;
mod model;
mod oracle;
mod refmap;
mod rng;
mod scenario;
mod sched;
mod world;

use std::path::PathBuf;

fn env_u64(name: &str) -> Option<u64> {
    std::env::var(name).ok().and_then(|s| s.trim().parse().ok())
}

fn main() {
    let args: Vec<String> = std::env::args().collect();
    let code = match args.get(1).map(|s| s.as_str()) {
        Some("check") => {
            let prop = args.get(2).cloned().unwrap_or_default();
            let tier = args.get(3).cloned().or_else(|| std::env::var("VERIF_TIER").ok()).unwrap_or_else(|| "quick".into());
            if !cases::PROPS.contains(&prop.as_str()) {
                eprintln!("harness error: unknown property {prop:?} (claimed: {:?})", cases::PROPS);
                std::process::exit(2);
            }
            let cfg = driver::CheckCfg {
                runs: env_u64("VERIF_RUNS").unwrap_or_else(|| driver::default_runs(&prop, &tier)),
                workers: env_u64("VERIF_WORKERS").unwrap_or(16),
                verif_seed: env_u64("VERIF_SEED").unwrap_or(driver::DEFAULT_SEED),
                min_budget_s: env_u64("VERIF_MIN_BUDGET").unwrap_or(60),
                write_evidence: std::env::var("VERIF_NO_EVIDENCE").is_err(),
                prop,
                tier,
            };
            driver::check_main(cfg)
        }
        Some("worker") => {
            driver::worker_main(&args[2..]);
            0
        }
        Some("replay") => driver::replay_main(&PathBuf::from(args.get(2).cloned().unwrap_or_default())),
        Some("explain") => driver::explain_main(&PathBuf::from(args.get(2).cloned().unwrap_or_default())),
        Some("determinism") => {
            let prop = args.get(2).cloned().unwrap_or_default();
            let n = args.get(3).and_then(|s| s.parse().ok()).unwrap_or(2000);
            driver::determinism_main(&prop, n, env_u64("VERIF_SEED").unwrap_or(driver::DEFAULT_SEED))
        }
        Some("det-worker") => {
            driver::det_worker_main(&args[2..]);
            0
        }
        Some("run-one") => {
            // run the case generated for (property, run index) and print what happened
            let prop = args.get(2).cloned().unwrap_or_default();
            let idx: u64 = args.get(3).and_then(|s| s.parse().ok()).unwrap_or(0);
            let seed = driver::run_seed(env_u64("VERIF_SEED").unwrap_or(driver::DEFAULT_SEED), &prop, idx);
            let case = cases::gen_case(&prop, seed);
            let r = minimize::run_case_isolated(&prop, &case, None);
            println!("outcome={} profile={} steps={} discarded={:?} harness={:?}", r.outcome_class, r.profile, r.steps, r.discarded, r.harness_error);
            for v in &r.violations {
                println!("  [{}] {}: {}", v.property, v.class, v.detail);
            }
            0
        }
        Some("show") => {
            // print the case generated for (property, run index)
            let prop = args.get(2).cloned().unwrap_or_default();
            let idx: u64 = args.get(3).and_then(|s| s.parse().ok()).unwrap_or(0);
            let seed = driver::run_seed(env_u64("VERIF_SEED").unwrap_or(driver::DEFAULT_SEED), &prop, idx);
            let case = cases::gen_case(&prop, seed);
            println!("{}", serde_json::to_string_pretty(&case).unwrap());
            0
        }
        _ => {
            eprintln!("usage: sim check <C07|C08|C09|C11|C12|C16> [quick|thorough] | replay <file> | determinism <prop> [n] | show <prop> <index>");
            2
        }
    };
    std::process::exit(code);
}
