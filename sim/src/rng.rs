//! SplitMix64: the only source of randomness in the simulator. Everything a run decides is
//! derived from one integer.

#[derive(Clone, Debug)]
pub struct Rng(u64);

pub fn mix(a: u64, b: u64) -> u64 {
    let mut r = Rng(a ^ b.wrapping_mul(0x9E37_79B9_7F4A_7C15).rotate_left(17));
    r.next_u64();
    r.next_u64()
}

pub fn hash_str(s: &str) -> u64 {
    // FNV-1a, stable across processes (std's RandomState is not).
    let mut h: u64 = 0xcbf2_9ce4_8422_2325;
    for b in s.bytes() {
        h ^= b as u64;
        h = h.wrapping_mul(0x0000_0100_0000_01B3);
    }
    h
}

/// Stable streaming hasher (FNV-1a over u64 words) for interleaving / shape signatures.
#[derive(Clone, Copy, Debug)]
pub struct StableHasher(pub u64);

impl Default for StableHasher {
    fn default() -> Self {
        StableHasher(0xcbf2_9ce4_8422_2325)
    }
}

impl StableHasher {
    pub fn new() -> Self {
        Self::default()
    }
    pub fn u64(&mut self, v: u64) {
        for b in v.to_le_bytes() {
            self.0 ^= b as u64;
            self.0 = self.0.wrapping_mul(0x0000_0100_0000_01B3);
        }
    }
    pub fn str(&mut self, s: &str) {
        for b in s.bytes() {
            self.0 ^= b as u64;
            self.0 = self.0.wrapping_mul(0x0000_0100_0000_01B3);
        }
        self.u64(s.len() as u64);
    }
    pub fn finish(&self) -> u64 {
        self.0
    }
}

impl Rng {
    pub fn new(seed: u64) -> Self {
        Rng(seed)
    }

    pub fn next_u64(&mut self) -> u64 {
        self.0 = self.0.wrapping_add(0x9E37_79B9_7F4A_7C15);
        let mut z = self.0;
        z = (z ^ (z >> 30)).wrapping_mul(0xBF58_476D_1CE4_E5B9);
        z = (z ^ (z >> 27)).wrapping_mul(0x94D0_49BB_1331_11EB);
        z ^ (z >> 31)
    }

    /// Uniform in 0..n (n > 0).
    pub fn below(&mut self, n: usize) -> usize {
        debug_assert!(n > 0);
        (self.next_u64() % n as u64) as usize
    }

    /// Uniform in lo..=hi.
    pub fn range(&mut self, lo: usize, hi: usize) -> usize {
        lo + self.below(hi - lo + 1)
    }

    /// True with probability num/den.
    pub fn chance(&mut self, num: u64, den: u64) -> bool {
        self.next_u64() % den < num
    }

    pub fn pick<'a, T>(&mut self, xs: &'a [T]) -> &'a T {
        &xs[self.below(xs.len())]
    }

    pub fn fork(&mut self, tag: u64) -> Rng {
        Rng(mix(self.next_u64(), tag))
    }
}
