//! Shrinking of a failing case: fewer ops, fewer preemptions, shorter texts, simpler knobs,
//! while a violation of the same (property, class) persists. Bounded by wall-clock.

use std::time::{Duration, Instant};

use crate::cases::{plan_of, run_case, Case, CaseReport};
use crate::ide_layer::{Graph, HistOp, HistScenario};
use crate::rng::Rng;
use crate::scenario::{Op, Scenario};
use crate::sched::Strategy;

pub struct Minimised {
    pub case: Case,
    pub plan: Option<Vec<Option<u16>>>,
    pub report: CaseReport,
    pub executions: u64,
    pub note: String,
}

struct Ctx<'a> {
    prop: &'a str,
    class: &'a str,
    deadline: Instant,
    executions: u64,
}

/// Wall-clock watchdog for one run. A run normally takes milliseconds and is bounded by the
/// step limit; only code that loops WITHOUT ever reaching a scheduling point (or blocks on a
/// primitive the simulator does not own) can exceed this. The thread cannot be killed: the
/// caller must end the process after reporting.
pub fn watchdog() -> Duration {
    let s = std::env::var("VERIF_WATCHDOG_S").ok().and_then(|s| s.parse().ok()).unwrap_or(30);
    Duration::from_secs(s)
}

fn run_isolated(prop: &str, case: &Case, plan: Option<Vec<Option<u16>>>) -> CaseReport {
    let prop = prop.to_string();
    let case2 = case.clone();
    let (tx, rx) = std::sync::mpsc::channel();
    let (tid_tx, tid_rx) = std::sync::mpsc::channel::<String>();
    let spawned = std::thread::Builder::new().stack_size(64 << 20).spawn(move || {
        // lets the watchdog look at this thread's state in /proc
        let me = std::fs::read_link("/proc/thread-self").map(|p| p.to_string_lossy().into_owned()).unwrap_or_default();
        let _ = tid_tx.send(me);
        let r = run_case(&prop, &case2, plan.as_deref());
        let _ = tx.send(r);
    });
    if spawned.is_err() {
        return CaseReport { harness_error: Some("cannot spawn run thread".into()), ..Default::default() };
    }
    match rx.recv_timeout(watchdog()) {
        Ok(r) => r,
        Err(std::sync::mpsc::RecvTimeoutError::Timeout) => {
            let profile = match case {
                Case::Server { scenario, .. } => scenario.profile.clone(),
                Case::Graph(_) => "graph".into(),
                Case::Hist(_) => "hist".into(),
            };
            // Spinning (a loop that never reaches a scheduling point) or blocked on a primitive
            // the simulator does not own? Only the first is something a simulated run can be
            // judged on; the second means the simulation cannot represent this code.
            let task = tid_rx.try_recv().unwrap_or_default();
            let mut running = 0;
            for _ in 0..20 {
                let stat = std::fs::read_to_string(format!("/proc/{task}/stat")).unwrap_or_default();
                // state is the field after the parenthesised command name
                let state = stat.rsplit(')').next().and_then(|r| r.trim().chars().next()).unwrap_or('?');
                if state == 'R' {
                    running += 1;
                }
                std::thread::sleep(Duration::from_millis(10));
            }
            if running == 0 {
                return CaseReport {
                    harness_error: Some(
                        "a run blocked on a primitive the simulator does not own (the run thread sleeps in the kernel); shim it in verif_hooks".into(),
                    ),
                    hung: true,
                    blocked_unshimmed: true,
                    outcome_class: "blocked-unshimmed".into(),
                    profile,
                    ..Default::default()
                };
            }
            CaseReport { hung: true, outcome_class: "hung".into(), profile, ..Default::default() }
        }
        // the run thread died without a report: a panic outside the simulation
        Err(std::sync::mpsc::RecvTimeoutError::Disconnected) => {
            CaseReport { harness_error: Some("run thread panicked outside the simulation".into()), ..Default::default() }
        }
    }
}

impl Ctx<'_> {
    fn expired(&self) -> bool {
        Instant::now() > self.deadline
    }

    /// Does (case, plan) still show the violation class?
    fn fails(&mut self, case: &Case, plan: Option<Vec<Option<u16>>>) -> Option<CaseReport> {
        if self.expired() {
            return None;
        }
        self.executions += 1;
        let r = run_isolated(self.prop, case, plan);
        if r.hung {
            // the spinning thread stays behind; stop shrinking
            self.deadline = Instant::now();
            return None;
        }
        if r.violations.iter().any(|v| v.property == self.prop && v.class == self.class) {
            Some(r)
        } else {
            None
        }
    }

    /// Tries the given plan leniently, then the default schedule, then a few seeded schedules
    /// (sticky first, so that a surviving schedule has few preemptions).
    fn fails_some_schedule(&mut self, scenario: &Scenario, plan: &[Option<u16>], tries: usize) -> Option<(Vec<Option<u16>>, CaseReport)> {
        let case = Case::Server { scenario: scenario.clone(), sched_seed: 0 };
        if let Some(r) = self.fails(&case, Some(vec![])) {
            return Some((plan_of(&r), r));
        }
        if !plan.is_empty() {
            if let Some(r) = self.fails(&case, Some(plan.to_vec())) {
                return Some((plan_of(&r), r));
            }
        }
        let mut rng = Rng::new(0x5EED);
        for i in 0..tries {
            let mut sc = scenario.clone();
            sc.knobs.strategy = match i % 3 {
                0 => Strategy::Sticky { den: 8 },
                1 => Strategy::Sticky { den: 3 },
                _ => Strategy::Random,
            };
            let case = Case::Server { scenario: sc, sched_seed: rng.next_u64() };
            if let Some(r) = self.fails(&case, None) {
                return Some((plan_of(&r), r));
            }
        }
        None
    }
}

/// Classic ddmin over a list; `test` returns true when the reduced list still fails.
fn ddmin<T: Clone>(mut items: Vec<T>, test: &mut dyn FnMut(&[T]) -> bool) -> Vec<T> {
    let mut n = 2usize;
    while items.len() >= 2 {
        let chunk = items.len().div_ceil(n);
        let mut reduced = false;
        let mut start = 0;
        while start < items.len() {
            let end = (start + chunk).min(items.len());
            let mut cand = items[..start].to_vec();
            cand.extend_from_slice(&items[end..]);
            if !cand.is_empty() && test(&cand) {
                items = cand;
                n = n.saturating_sub(1).max(2);
                reduced = true;
                break;
            }
            start = end;
        }
        if !reduced {
            if n >= items.len() {
                break;
            }
            n = (n * 2).min(items.len());
        }
    }
    if items.len() == 1 {
        // try the empty list as well
        if test(&[]) {
            items.clear();
        }
    }
    items
}

/// Removes ops by index set, dropping/remapping `Cancel` references.
fn keep_ops(ops: &[Op], keep: &[usize]) -> Vec<Op> {
    // scenario validity is preserved: a request / save / close only for a document that is
    // open at that point, a cancel only for a request that is kept
    let mut open: std::collections::BTreeSet<&String> = Default::default();
    let mut kept_idx: Vec<usize> = Vec::new();
    let mut out = Vec::new();
    for &i in keep {
        match &ops[i] {
            Op::Cancel { op } => {
                if let Some(new) = kept_idx.iter().position(|k| k == op) {
                    out.push(Op::Cancel { op: new });
                    kept_idx.push(i);
                }
            }
            Op::Open { path, .. } | Op::Change { path, .. } | Op::Change2 { path, .. } => {
                open.insert(path);
                out.push(ops[i].clone());
                kept_idx.push(i);
            }
            Op::Request { path, .. } | Op::Save { path } | Op::EmptyChange { path } | Op::Close { path } => {
                if open.contains(path) {
                    out.push(ops[i].clone());
                    kept_idx.push(i);
                }
            }
            o => {
                out.push(o.clone());
                kept_idx.push(i);
            }
        }
    }
    out
}

fn shrink_text(text: &str, test: &mut dyn FnMut(&str) -> bool) -> String {
    let sep = if text.contains("\r\n") { "\r\n" } else if text.contains('\r') { "\r" } else { "\n" };
    let lines: Vec<String> = text.split(sep).map(|s| s.to_string()).collect();
    let kept = ddmin(lines, &mut |ls: &[String]| test(&ls.join(sep)));
    kept.join(sep)
}

fn minimize_server(ctx: &mut Ctx, scenario: Scenario, first: CaseReport) -> (Scenario, Vec<Option<u16>>, CaseReport) {
    let mut best_sc = scenario;
    let mut best_plan = plan_of(&first);
    let mut best_report = first;

    // How schedule-dependent is this violation? If the default schedule shows it, one try per
    // candidate is enough; otherwise estimate the hit rate over seeded schedules and search
    // accordingly, so that a candidate is not rejected just because 12 schedules missed it.
    let tries = {
        let case = Case::Server { scenario: best_sc.clone(), sched_seed: 0 };
        if ctx.fails(&case, Some(vec![])).is_some() {
            4
        } else {
            let mut rng = Rng::new(0xE571);
            let mut hits = 0usize;
            let n = 80;
            for i in 0..n {
                let mut sc = best_sc.clone();
                sc.knobs.strategy = if i % 2 == 0 { Strategy::Sticky { den: 4 } } else { Strategy::Random };
                if ctx.fails(&Case::Server { scenario: sc, sched_seed: rng.next_u64() }, None).is_some() {
                    hits += 1;
                }
            }
            let rate = (hits.max(1)) as f64 / n as f64;
            ((4.0 / rate).ceil() as usize).clamp(12, 600)
        }
    };

    // 1. ops
    let idx: Vec<usize> = (0..best_sc.ops.len()).collect();
    let base_ops = best_sc.ops.clone();
    let base = best_sc.clone();
    let mut found: Option<(Vec<usize>, Vec<Option<u16>>, CaseReport)> = None;
    let plan0 = best_plan.clone();
    let kept = ddmin(idx, &mut |keep: &[usize]| {
        let mut sc = base.clone();
        sc.ops = keep_ops(&base_ops, keep);
        match ctx.fails_some_schedule(&sc, &plan0, tries) {
            Some((p, r)) => {
                found = Some((keep.to_vec(), p, r));
                true
            }
            None => false,
        }
    });
    if let Some((keep, p, r)) = found {
        if keep == kept {
            best_sc.ops = keep_ops(&base_ops, &keep);
            best_plan = p;
            best_report = r;
        }
    }

    // 2. knobs
    for k in 0..4 {
        let mut sc = best_sc.clone();
        match k {
            0 => sc.knobs.out_capacity = None,
            1 => sc.knobs.max_chunks = 1,
            2 => sc.knobs.include_dir = None,
            _ => {
                // files on disk that nothing needs
                let paths: Vec<String> = sc.disk0.keys().cloned().collect();
                for p in paths {
                    let mut sc2 = sc.clone();
                    sc2.disk0.remove(&p);
                    if let Some((pl, r)) = ctx.fails_some_schedule(&sc2, &best_plan, tries) {
                        sc = sc2;
                        best_plan = pl;
                        best_report = r;
                    }
                }
            }
        }
        if sc != best_sc {
            if let Some((pl, r)) = ctx.fails_some_schedule(&sc, &best_plan, tries) {
                best_sc = sc;
                best_plan = pl;
                best_report = r;
            }
        }
    }

    // 3. texts: drop lines
    for i in 0..best_sc.ops.len() {
        if ctx.expired() {
            break;
        }
        let text = match &best_sc.ops[i] {
            Op::Open { text, .. } | Op::Change { text, .. } | Op::Change2 { text, .. } | Op::DiskWrite { text, .. } => text.clone(),
            _ => continue,
        };
        let sc0 = best_sc.clone();
        let plan0 = best_plan.clone();
        let mut last_ok: Option<(String, Vec<Option<u16>>, CaseReport)> = None;
        let shrunk = shrink_text(&text, &mut |t: &str| {
            let mut sc = sc0.clone();
            match &mut sc.ops[i] {
                Op::Open { text, .. } | Op::Change { text, .. } | Op::Change2 { text, .. } | Op::DiskWrite { text, .. } => *text = t.to_string(),
                _ => {}
            }
            // request offsets may now point past the end: clamp
            clamp_offsets(&mut sc);
            match ctx.fails_some_schedule(&sc, &plan0, tries.min(60)) {
                Some((p, r)) => {
                    last_ok = Some((t.to_string(), p, r));
                    true
                }
                None => false,
            }
        });
        if let Some((t, p, r)) = last_ok {
            if t == shrunk {
                match &mut best_sc.ops[i] {
                    Op::Open { text, .. } | Op::Change { text, .. } | Op::Change2 { text, .. } | Op::DiskWrite { text, .. } => *text = t,
                    _ => {}
                }
                clamp_offsets(&mut best_sc);
                best_plan = p;
                best_report = r;
            }
        }
    }

    // 4. schedule: as few non-default decisions as possible
    let case = Case::Server { scenario: best_sc.clone(), sched_seed: 0 };
    if let Some(r) = ctx.fails(&case, Some(vec![])) {
        best_plan = plan_of(&r);
        best_report = r;
    } else {
        let nd: Vec<u32> = best_report.non_default.clone();
        let decisions = best_report.decisions.clone();
        let mut found: Option<CaseReport> = None;
        let _ = ddmin(nd, &mut |keep: &[u32]| {
            let max = keep.iter().max().copied().unwrap_or(0) as usize;
            let mut plan: Vec<Option<u16>> = vec![None; max + 1];
            for k in keep {
                plan[*k as usize] = Some(decisions[*k as usize]);
            }
            match ctx.fails(&case, Some(plan)) {
                Some(r) => {
                    found = Some(r);
                    true
                }
                None => false,
            }
        });
        if let Some(r) = found {
            best_plan = plan_of(&r);
            best_report = r;
        }
    }
    (best_sc, best_plan, best_report)
}

fn clamp_offsets(sc: &mut Scenario) {
    let mut texts: std::collections::BTreeMap<String, String> = Default::default();
    for op in sc.ops.iter_mut() {
        match op {
            Op::Open { path, text } | Op::Change { path, text } | Op::Change2 { path, text, .. } => {
                texts.insert(path.clone(), text.clone());
            }
            Op::Request { path, offset, .. } => {
                if let Some(t) = texts.get(path) {
                    let mut o = (*offset as usize).min(t.len());
                    while o > 0 && !t.is_char_boundary(o) {
                        o -= 1;
                    }
                    *offset = o as u32;
                }
            }
            _ => {}
        }
    }
}

fn minimize_graph(ctx: &mut Ctx, g: Graph, first: CaseReport) -> (Graph, CaseReport) {
    let mut best = g;
    let mut best_r = first;
    // drop include statements one at a time
    loop {
        let mut progressed = false;
        'outer: for i in 0..best.files.len() {
            for j in 0..best.files[i].includes.len() {
                let mut cand = best.clone();
                cand.files[i].includes.remove(j);
                if let Some(r) = ctx.fails(&Case::Graph(cand.clone()), None) {
                    best = cand;
                    best_r = r;
                    progressed = true;
                    break 'outer;
                }
            }
        }
        if !progressed || ctx.expired() {
            break;
        }
    }
    // un-nest
    for i in 0..best.files.len() {
        for j in 0..best.files[i].includes.len() {
            if best.files[i].includes[j].nested {
                let mut cand = best.clone();
                cand.files[i].includes[j].nested = false;
                if let Some(r) = ctx.fails(&Case::Graph(cand.clone()), None) {
                    best = cand;
                    best_r = r;
                }
            }
        }
    }
    // drop files (never the root; class names follow the index, so only from the end)
    while best.files.len() > 1 {
        let mut cand = best.clone();
        cand.files.pop();
        let n = cand.files.len();
        cand.hidden.retain(|i| *i < n);
        if let Some(sh) = cand.second_hidden.as_mut() {
            sh.retain(|i| *i < n);
        }
        match ctx.fails(&Case::Graph(cand.clone()), None) {
            Some(r) => {
                best = cand;
                best_r = r;
            }
            None => break,
        }
    }
    for k in 0..4 {
        let mut cand = best.clone();
        match k {
            0 => cand.include_dir = None,
            1 => cand.unreadable.clear(),
            2 => cand.second_hidden = None,
            _ => cand.hidden.clear(),
        }
        if cand != best {
            if let Some(r) = ctx.fails(&Case::Graph(cand.clone()), None) {
                best = cand;
                best_r = r;
            }
        }
    }
    (best, best_r)
}

fn minimize_hist(ctx: &mut Ctx, sc: HistScenario, first: CaseReport) -> (HistScenario, CaseReport) {
    let mut best = sc;
    let mut best_r = first;
    let base = best.clone();
    let mut found: Option<(Vec<HistOp>, CaseReport)> = None;
    let kept = ddmin(base.ops.clone(), &mut |ops: &[HistOp]| {
        let mut cand = base.clone();
        cand.ops = ops.to_vec();
        match ctx.fails(&Case::Hist(cand), None) {
            Some(r) => {
                found = Some((ops.to_vec(), r));
                true
            }
            None => false,
        }
    });
    if let Some((ops, r)) = found {
        if ops == kept {
            best.ops = ops;
            best_r = r;
        }
    }
    // texts
    for i in 0..best.ops.len() {
        if ctx.expired() {
            break;
        }
        let text = match &best.ops[i] {
            HistOp::Edit { text, .. } | HistOp::DiskWrite { text, .. } => text.clone(),
            _ => continue,
        };
        let sc0 = best.clone();
        let mut last_ok: Option<(String, CaseReport)> = None;
        let shrunk = shrink_text(&text, &mut |t: &str| {
            let mut cand = sc0.clone();
            match &mut cand.ops[i] {
                HistOp::Edit { text, .. } | HistOp::DiskWrite { text, .. } => *text = t.to_string(),
                _ => {}
            }
            match ctx.fails(&Case::Hist(cand), None) {
                Some(r) => {
                    last_ok = Some((t.to_string(), r));
                    true
                }
                None => false,
            }
        });
        if let Some((t, r)) = last_ok {
            if t == shrunk {
                match &mut best.ops[i] {
                    HistOp::Edit { text, .. } | HistOp::DiskWrite { text, .. } => *text = t,
                    _ => {}
                }
                best_r = r;
            }
        }
    }
    // disk0 files
    let paths: Vec<String> = best.disk0.keys().cloned().collect();
    for p in paths {
        let mut cand = best.clone();
        cand.disk0.remove(&p);
        if let Some(r) = ctx.fails(&Case::Hist(cand.clone()), None) {
            best = cand;
            best_r = r;
        }
    }
    (best, best_r)
}

pub fn minimize(prop: &str, class: &str, case: Case, first: CaseReport, budget: Duration) -> Minimised {
    let mut ctx = Ctx { prop, class, deadline: Instant::now() + budget, executions: 0 };
    let (case, plan, report) = match case {
        Case::Server { scenario, .. } => {
            let (sc, plan, r) = minimize_server(&mut ctx, scenario, first);
            (Case::Server { scenario: sc, sched_seed: 0 }, Some(plan), r)
        }
        Case::Graph(g) => {
            let (g, r) = minimize_graph(&mut ctx, g, first);
            (Case::Graph(g), None, r)
        }
        Case::Hist(sc) => {
            let (sc, r) = minimize_hist(&mut ctx, sc, first);
            (Case::Hist(sc), None, r)
        }
    };
    let note = format!(
        "minimised with {} executions{}",
        ctx.executions,
        if ctx.expired() { " (budget exhausted)" } else { "" }
    );
    Minimised { case, plan, report, executions: ctx.executions, note }
}

pub fn run_case_isolated(prop: &str, case: &Case, plan: Option<Vec<Option<u16>>>) -> CaseReport {
    run_isolated(prop, case, plan)
}
