//! The check driver: splits a property's run indices over worker processes, merges what they
//! report, applies the known-findings list, writes the evidence file, prints verdict lines.
//!
//! Exit codes: 0 = held on everything explored (known findings printed), 1 = violation,
//! 2 = harness error.

use std::collections::{BTreeMap, BTreeSet};
use std::io::Write;
use std::path::{Path, PathBuf};
use std::process::{Command, Stdio};
use std::time::{Duration, Instant};

use serde::{Deserialize, Serialize};
use serde_json::{json, Value};

use crate::cases::{gen_case, plan_of, Case, ReplayFile};
use crate::minimize;
use crate::oracle::Violation;
use crate::rng::{hash_str, mix};

pub const DEFAULT_SEED: u64 = 20260926;
const VERIF_DIR: &str = "/verif";

fn replays_dir() -> PathBuf {
    PathBuf::from(VERIF_DIR).join("replays")
}

#[derive(Clone, Debug, Serialize, Deserialize)]
pub struct KnownFinding {
    pub id: String,
    pub property: String,
    /// "open" (suppresses a matching violation, printed as KNOWN-FINDING) or "fixed"
    /// (suppresses nothing; kept as a record)
    pub status: String,
    /// exact violation class this finding is identified by
    pub class: Option<String>,
    /// restrict to a profile (sub-workload), if given
    pub profile: Option<String>,
    pub what: String,
    #[serde(default)]
    pub commit: Option<String>,
}

#[derive(Clone, Debug, Default, Serialize, Deserialize)]
pub struct KnownFindings {
    pub findings: Vec<KnownFinding>,
}

pub fn load_known() -> KnownFindings {
    let p = PathBuf::from(VERIF_DIR).join("findings/known_findings.json");
    match std::fs::read_to_string(&p) {
        Ok(s) => serde_json::from_str(&s).unwrap_or_else(|e| {
            eprintln!("harness error: cannot parse {}: {e}", p.display());
            std::process::exit(2)
        }),
        Err(_) => KnownFindings::default(),
    }
}

impl KnownFindings {
    pub fn matching(&self, v: &Violation, profile: &str) -> Option<&KnownFinding> {
        self.findings.iter().find(|f| {
            f.status == "open"
                && f.property == v.property
                && f.class.as_deref() == Some(v.class.as_str())
                && f.profile.as_deref().map(|p| p == profile).unwrap_or(true)
        })
    }
}

pub fn run_seed(verif_seed: u64, prop: &str, index: u64) -> u64 {
    mix(mix(verif_seed, hash_str(prop)), index)
}

#[derive(Clone, Debug, Default, Serialize, Deserialize)]
pub struct WorkerSummary {
    pub runs: u64,
    pub counters: BTreeMap<String, u64>,
    /// runs in which the counter was non-zero
    pub fired_in_runs: BTreeMap<String, u64>,
    pub outcomes: BTreeMap<String, u64>,
    pub profiles: BTreeMap<String, u64>,
    pub discarded: BTreeMap<String, u64>,
    pub steps_total: u64,
    pub steps_max: u64,
    /// the three distinct-measures travel in binary side files (8 bytes per hash), not in
    /// the JSON summary: a thorough run has millions of them
    #[serde(skip)]
    pub distinct_nontrivial: BTreeSet<u64>,
    #[serde(skip)]
    pub distinct_interleavings: BTreeSet<u64>,
    #[serde(skip)]
    pub distinct_shapes: BTreeSet<u64>,
    pub samples: Vec<Value>,
    pub violations: Vec<FoundViolation>,
    pub violation_count: u64,
    pub violation_classes: BTreeMap<String, u64>,
    pub known_counts: BTreeMap<String, u64>,
    pub harness_errors: Vec<String>,
}

#[derive(Clone, Debug, Serialize, Deserialize)]
pub struct FoundViolation {
    pub violation: Violation,
    pub profile: String,
    pub run_index: u64,
    pub replay: Option<String>,
}

fn short_reason(s: &str) -> String {
    let s = s.split(':').next().unwrap_or(s);
    s.chars().take(60).collect()
}

/// `sim worker <prop> <verif_seed> <start> <end> <stride> <worker_id> <min_budget_s>`
pub fn worker_main(args: &[String]) {
    let prop = args[0].clone();
    let verif_seed: u64 = args[1].parse().unwrap();
    let start: u64 = args[2].parse().unwrap();
    let end: u64 = args[3].parse().unwrap();
    let stride: u64 = args[4].parse().unwrap();
    let worker_id: u64 = args[5].parse().unwrap();
    let min_budget: u64 = args[6].parse().unwrap();
    // distinguishes concurrent checks of the same property (the driver's pid)
    let tag: String = args.get(7).cloned().unwrap_or_else(|| "0".into());
    let known = load_known();
    crate::exec::install_quiet_panic_hook();
    crate::world::install_hooks();

    let tmp = replays_dir().join("tmp");
    std::fs::create_dir_all(&tmp).ok();
    let wal = tmp.join(format!("{prop}-{tag}-w{worker_id}.json"));

    let mut sum = WorkerSummary::default();
    let mut minimised_classes: BTreeSet<String> = BTreeSet::new();
    let mut index = start;
    while index < end {
        let seed = run_seed(verif_seed, &prop, index);
        let case = gen_case(&prop, seed);
        // write-ahead: if this run kills the process, the driver finds what was running
        let wal_file = ReplayFile {
            property: prop.clone(),
            verif_seed,
            run_index: index,
            case: case.clone(),
            plan: None,
            violation: None,
            log_hash: None,
            minimised: false,
            note: "write-ahead (the run did not finish)".into(),
        };
        std::fs::write(&wal, serde_json::to_vec(&wal_file).unwrap()).ok();

        let report = minimize::run_case_isolated(&prop, &case, None);
        if report.hung {
            // A run that never reaches a scheduling point again cannot be stopped: report and
            // end this process (the rest of this worker's slice is not explored).
            sum.runs += 1;
            *sum.outcomes.entry("hung".into()).or_default() += 1;
            let v = Violation::new(&prop, "hang-watchdog", format!("the run did not finish within {:?} of wall-clock without reaching a scheduling point (a loop that never blocks, reads the disk or takes a lock)", minimize::watchdog()));
            let liveness_prop = matches!(prop.as_str(), "C08" | "C16") && !report.blocked_unshimmed;
            if report.blocked_unshimmed {
                sum.harness_errors.push(format!("run {index}: blocked on a primitive the simulator does not own (not a verdict)"));
            }
            if liveness_prop {
                let path = replays_dir().join(format!("{prop}-hang-watchdog-{seed:016x}.json"));
                let file = ReplayFile { violation: Some(v.clone()), note: "not minimised: the run never returns".into(), ..wal_file.clone() };
                std::fs::write(&path, serde_json::to_vec_pretty(&file).unwrap()).ok();
                if let Some(k) = known.matching(&v, &report.profile) {
                    *sum.known_counts.entry(k.id.clone()).or_default() += 1;
                } else {
                    sum.violation_count += 1;
                    *sum.violation_classes.entry(format!("{} ({})", v.class, report.profile)).or_default() += 1;
                    sum.violations.push(FoundViolation { violation: v, profile: report.profile.clone(), run_index: index, replay: Some(path.to_string_lossy().into_owned()) });
                }
            } else {
                sum.harness_errors.push(format!("run {index} hung (watchdog); liveness is not this property's verdict, the run was not judged"));
            }
            sum.harness_errors.push(format!("worker {worker_id} stopped after a hung run at index {index}; the rest of its slice was not explored"));
            std::fs::remove_file(&wal).ok();
            write_hashes(&prop, &tag, worker_id, &sum);
            println!("SUMMARY {}", serde_json::to_string(&sum).unwrap());
            std::process::exit(0);
        }
        sum.runs += 1;
        *sum.outcomes.entry(report.outcome_class.clone()).or_default() += 1;
        *sum.profiles.entry(report.profile.clone()).or_default() += 1;
        sum.steps_total += report.steps;
        sum.steps_max = sum.steps_max.max(report.steps);
        for (k, v) in &report.counters {
            *sum.counters.entry(k.clone()).or_default() += v;
            if *v > 0 {
                *sum.fired_in_runs.entry(k.clone()).or_default() += 1;
            }
        }
        sum.distinct_shapes.insert(report.shape_hash);
        sum.distinct_interleavings.insert(report.inter_hash);
        if report.nontrivial {
            sum.distinct_nontrivial.insert(mix(report.shape_hash, report.inter_hash));
        }
        if let Some(d) = &report.discarded {
            *sum.discarded.entry(short_reason(d)).or_default() += 1;
        }
        if let Some(e) = &report.harness_error {
            if sum.harness_errors.len() < 5 {
                sum.harness_errors.push(format!("run {index}: {e}"));
            }
        }
        if sum.samples.len() < 2 && report.nontrivial && report.violations.is_empty() {
            sum.samples.push(json!({
                "run_index": index,
                "case": shorten(serde_json::to_value(&case).unwrap()),
                "decisions": report.decisions.iter().take(400).collect::<Vec<_>>(),
                "outcome": report.outcome_class,
            }));
        }
        for v in &report.violations {
            if let Some(k) = known.matching(v, &report.profile) {
                *sum.known_counts.entry(k.id.clone()).or_default() += 1;
                continue;
            }
            sum.violation_count += 1;
            *sum.violation_classes.entry(format!("{} ({})", v.class, report.profile)).or_default() += 1;
            let key = format!("{}:{}", v.property, v.class);
            if minimised_classes.contains(&key) || sum.violations.len() >= 6 {
                continue;
            }
            minimised_classes.insert(key);
            let m = minimize::minimize(&prop, &v.class, case.clone(), report.clone(), Duration::from_secs(min_budget));
            let viol = m.report.violations.iter().find(|x| x.class == v.class).cloned().unwrap_or_else(|| v.clone());
            let file = ReplayFile {
                property: prop.clone(),
                verif_seed,
                run_index: index,
                case: m.case.clone(),
                plan: m.plan.clone().or_else(|| match &m.case {
                    Case::Server { .. } => Some(plan_of(&m.report)),
                    _ => None,
                }),
                violation: Some(viol.clone()),
                log_hash: Some(m.report.log_hash),
                minimised: true,
                note: m.note.clone(),
            };
            let name = format!("{prop}-{}-{seed:016x}.json", sanitize(&v.class));
            let path = replays_dir().join(name);
            std::fs::write(&path, serde_json::to_vec_pretty(&file).unwrap()).ok();
            sum.violations.push(FoundViolation {
                violation: viol,
                profile: report.profile.clone(),
                run_index: index,
                replay: Some(path.to_string_lossy().into_owned()),
            });
        }
        index += stride;
        // triage mode (tools/run_mutant.sh): one minimised violation per worker is enough to
        // know that a seeded change is caught; never set by a registered check
        if !sum.violations.is_empty() && std::env::var("VERIF_STOP_AT_FIRST").is_ok() {
            break;
        }
        // A run that ends in a deadlock leaks its coroutines (shuttle cannot unwind them), so a
        // long-lived worker grows. Hand over to a fresh process before that becomes a problem.
        if sum.runs % 128 == 0 && index < end && rss_mb() > rss_limit_mb() {
            std::fs::remove_file(&wal).ok();
            write_hashes(&prop, &tag, worker_id, &sum);
            println!("SUMMARY {}", serde_json::to_string(&sum).unwrap());
            println!("CONTINUE {index}");
            std::process::exit(0);
        }
    }
    std::fs::remove_file(&wal).ok();
    write_hashes(&prop, &tag, worker_id, &sum);
    let out = serde_json::to_string(&sum).unwrap();
    println!("SUMMARY {out}");
}

fn rss_mb() -> u64 {
    std::fs::read_to_string("/proc/self/statm")
        .ok()
        .and_then(|s| s.split_whitespace().nth(1).and_then(|p| p.parse::<u64>().ok()))
        .map(|pages| pages * 4096 / (1 << 20))
        .unwrap_or(0)
}

fn rss_limit_mb() -> u64 {
    std::env::var("VERIF_RSS_LIMIT_MB").ok().and_then(|s| s.parse().ok()).unwrap_or(1500)
}

fn hash_file(prop: &str, tag: &str, worker: u64, kind: &str) -> PathBuf {
    replays_dir().join("tmp").join(format!("{prop}-{tag}-w{worker}.{kind}.hashes"))
}

fn write_hashes(prop: &str, tag: &str, worker: u64, sum: &WorkerSummary) {
    for (kind, set) in [("nontrivial", &sum.distinct_nontrivial), ("inter", &sum.distinct_interleavings), ("shape", &sum.distinct_shapes)] {
        let mut bytes = Vec::with_capacity(set.len() * 8);
        for h in set {
            bytes.extend_from_slice(&h.to_le_bytes());
        }
        std::fs::write(hash_file(prop, tag, worker, kind), bytes).ok();
    }
}

fn read_hashes(prop: &str, tag: &str, worker: u64, kind: &str, into: &mut BTreeSet<u64>) {
    let path = hash_file(prop, tag, worker, kind);
    if let Ok(bytes) = std::fs::read(&path) {
        for c in bytes.chunks_exact(8) {
            into.insert(u64::from_le_bytes(c.try_into().unwrap()));
        }
    }
    std::fs::remove_file(&path).ok();
}

/// Long texts are cut in evidence samples (the full case is reproducible from its run index).
fn shorten(v: Value) -> Value {
    match v {
        Value::String(s) if s.len() > 600 => {
            let mut e = 600;
            while !s.is_char_boundary(e) {
                e -= 1;
            }
            Value::String(format!("{}… ({} bytes in all)", &s[..e], s.len()))
        }
        Value::Array(a) => Value::Array(a.into_iter().map(shorten).collect()),
        Value::Object(o) => Value::Object(o.into_iter().map(|(k, v)| (k, shorten(v))).collect()),
        v => v,
    }
}

fn sanitize(s: &str) -> String {
    s.chars().map(|c| if c.is_ascii_alphanumeric() || c == '-' { c } else { '_' }).collect()
}

fn merge(a: &mut WorkerSummary, b: WorkerSummary) {
    a.runs += b.runs;
    for (k, v) in b.counters {
        *a.counters.entry(k).or_default() += v;
    }
    for (k, v) in b.fired_in_runs {
        *a.fired_in_runs.entry(k).or_default() += v;
    }
    for (k, v) in b.outcomes {
        *a.outcomes.entry(k).or_default() += v;
    }
    for (k, v) in b.profiles {
        *a.profiles.entry(k).or_default() += v;
    }
    for (k, v) in b.discarded {
        *a.discarded.entry(k).or_default() += v;
    }
    for (k, v) in b.known_counts {
        *a.known_counts.entry(k).or_default() += v;
    }
    a.steps_total += b.steps_total;
    a.steps_max = a.steps_max.max(b.steps_max);
    a.distinct_nontrivial.extend(b.distinct_nontrivial);
    a.distinct_interleavings.extend(b.distinct_interleavings);
    a.distinct_shapes.extend(b.distinct_shapes);
    for s in b.samples {
        if a.samples.len() < 3 {
            a.samples.push(s);
        }
    }
    a.violations.extend(b.violations);
    a.violation_count += b.violation_count;
    for (k, v) in b.violation_classes {
        *a.violation_classes.entry(k).or_default() += v;
    }
    a.harness_errors.extend(b.harness_errors);
}

pub struct CheckCfg {
    pub prop: String,
    pub tier: String,
    pub runs: u64,
    pub workers: u64,
    pub verif_seed: u64,
    pub min_budget_s: u64,
    pub write_evidence: bool,
}

pub fn default_runs(prop: &str, tier: &str) -> u64 {
    let quick = tier != "thorough";
    match (prop, quick) {
        ("C07", true) => 24_000,
        ("C07", false) => 400_000,
        ("C12", true) => 30_000,
        ("C12", false) => 400_000,
        ("C16", true) => 120_000,
        ("C16", false) => 6_000_000,
        ("C08", true) => 80_000,
        ("C08", false) => 2_000_000,
        (_, true) => 50_000,
        (_, false) => 1_000_000,
    }
}

fn level_text(prop: &str) -> (&'static str, Vec<&'static str>) {
    let common = vec![
        "sampling, not proof: a clean batch is evidence only",
        "interleavings inside salsa's own memo tables are not explored (tasks run atomically between simulator scheduling points)",
        "the salsa revision lock is mirrored by a ghost lock argued from salsa 0.16.1's source; the Vfs ghost is cross-checked by try_read/try_write at every acquisition",
        "tokio's blocking pool is replaced by simulator tasks; stdio, TracingLayer and ClientProcessMonitorLayer are absent",
        "HashMap iteration order is uncontrolled; oracles compare multisets",
    ];
    let _ = prop;
    ("exploration", common)
}

pub fn check_main(cfg: CheckCfg) -> i32 {
    let t0 = Instant::now();
    let exe = std::env::current_exe().expect("current_exe");
    std::fs::create_dir_all(replays_dir().join("tmp")).ok();
    std::fs::create_dir_all(PathBuf::from(VERIF_DIR).join("evidence")).ok();
    let tag = std::process::id().to_string();
    let known = load_known();
    let workers = cfg.workers.max(1).min(cfg.runs.max(1));
    // one thread per worker slot: it runs a worker process over the slot's index slice and, when
    // the process hands over (memory), continues the slice in a fresh process
    let mut slots = Vec::new();
    for w in 0..workers {
        let exe = exe.clone();
        let prop = cfg.prop.clone();
        let tag = tag.clone();
        let (verif_seed, runs, min_budget) = (cfg.verif_seed, cfg.runs, cfg.min_budget_s);
        slots.push(std::thread::spawn(move || {
            let mut parts: Vec<WorkerSummary> = Vec::new();
            let mut errors: Vec<String> = Vec::new();
            let mut crashed: Option<PathBuf> = None;
            let mut start = w;
            loop {
                let out = Command::new(&exe)
                    .args([
                        "worker",
                        &prop,
                        &verif_seed.to_string(),
                        &start.to_string(),
                        &runs.to_string(),
                        &workers.to_string(),
                        &w.to_string(),
                        &min_budget.to_string(),
                        &tag,
                    ])
                    .stdout(Stdio::piped())
                    .stderr(Stdio::null())
                    .output();
                let out = match out {
                    Ok(o) => o,
                    Err(e) => {
                        errors.push(format!("worker {w}: cannot start: {e}"));
                        break;
                    }
                };
                let stdout = String::from_utf8_lossy(&out.stdout);
                let summary = stdout.lines().find_map(|l| l.strip_prefix("SUMMARY ")).and_then(|j| serde_json::from_str::<WorkerSummary>(j).ok());
                match summary {
                    Some(mut s) => {
                        read_hashes(&prop, &tag, w, "nontrivial", &mut s.distinct_nontrivial);
                        read_hashes(&prop, &tag, w, "inter", &mut s.distinct_interleavings);
                        read_hashes(&prop, &tag, w, "shape", &mut s.distinct_shapes);
                        parts.push(s);
                    }
                    None => {
                        let wal = replays_dir().join("tmp").join(format!("{prop}-{tag}-w{w}.json"));
                        if wal.exists() {
                            crashed = Some(wal);
                        } else {
                            errors.push(format!("worker {w} ended ({:?}) without a summary and without a write-ahead file", out.status));
                        }
                        break;
                    }
                }
                match stdout.lines().find_map(|l| l.strip_prefix("CONTINUE ")).and_then(|i| i.trim().parse::<u64>().ok()) {
                    Some(next) => start = next,
                    None => break,
                }
            }
            (w, parts, errors, crashed)
        }));
    }
    let mut total = WorkerSummary::default();
    let mut harness_errors: Vec<String> = Vec::new();
    let mut crashed: Vec<(u64, PathBuf)> = Vec::new();
    for slot in slots {
        let (w, parts, errors, dead) = slot.join().expect("slot thread");
        for s in parts {
            merge(&mut total, s);
        }
        harness_errors.extend(errors);
        if let Some(wal) = dead {
            crashed.push((w, wal));
        }
    }
    harness_errors.extend(total.harness_errors.clone());

    let mut violation_lines: Vec<String> = Vec::new();
    // a worker that died mid-run: the write-ahead file names the case; classify it
    for (w, wal) in crashed {
        let keep = replays_dir().join(format!("{}-crash-w{w}.json", cfg.prop));
        std::fs::rename(&wal, &keep).ok();
        let v = Violation::new(&cfg.prop, "process-died", "the process running this case died (stack overflow / abort)");
        let profile = std::fs::read_to_string(&keep)
            .ok()
            .and_then(|s| serde_json::from_str::<ReplayFile>(&s).ok())
            .map(|f| match f.case {
                Case::Server { scenario, .. } => scenario.profile,
                Case::Graph(_) => "graph".into(),
                Case::Hist(_) => "hist".into(),
            })
            .unwrap_or_default();
        if let Some(k) = known.matching(&v, &profile) {
            *total.known_counts.entry(k.id.clone()).or_default() += 1;
            // the rest of that worker's slice was not explored
            harness_errors.push(format!("worker {w} died on a known finding ({}); its remaining runs were skipped", k.id));
        } else {
            total.violation_count += 1;
            total.violations.push(FoundViolation { violation: v, profile, run_index: 0, replay: Some(keep.to_string_lossy().into_owned()) });
        }
    }

    for fv in &total.violations {
        violation_lines.push(format!(
            "VIOLATION property={} replay={}",
            fv.violation.property,
            fv.replay.clone().unwrap_or_default()
        ));
        eprintln!("  [{}] {} ({}): {}", fv.violation.property, fv.violation.class, fv.profile, truncate(&fv.violation.detail, 600));
    }
    for (c, n) in &total.violation_classes {
        eprintln!("  violation class {c}: {n} run(s)");
    }
    for (id, n) in &total.known_counts {
        let what = known.findings.iter().find(|f| f.id == *id).map(|f| f.what.clone()).unwrap_or_default();
        println!("KNOWN-FINDING: property={} {} [{}; matched in {} run(s)]", cfg.prop, what, id, n);
    }

    let wall = t0.elapsed().as_secs_f64();
    if cfg.write_evidence {
        write_evidence(&cfg, &total, wall, &harness_errors);
    }
    println!(
        "{} {}: {} runs, {} distinct non-trivial, {} violation(s), {} known-finding match(es), {:.1}s",
        cfg.prop,
        cfg.tier,
        total.runs,
        total.distinct_nontrivial.len(),
        total.violation_count,
        total.known_counts.values().sum::<u64>(),
        wall
    );
    if !violation_lines.is_empty() {
        for l in violation_lines {
            println!("{l}");
        }
        return 1;
    }
    let hard_errors: Vec<&String> = harness_errors.iter().filter(|e| !e.contains("died on a known finding")).collect();
    if !hard_errors.is_empty() {
        for e in hard_errors {
            eprintln!("harness error: {e}");
        }
        return 2;
    }
    let discarded: u64 = total.discarded.values().sum();
    if total.runs > 0 && discarded * 4 > total.runs {
        eprintln!(
            "harness error: {discarded} of {} runs could not be judged ({:?}); a check that cannot look is not a pass",
            total.runs, total.discarded
        );
        return 2;
    }
    if total.runs == 0 {
        eprintln!("harness error: no runs executed");
        return 2;
    }
    0
}

fn truncate(s: &str, n: usize) -> String {
    if s.len() <= n {
        s.to_string()
    } else {
        let mut e = n;
        while !s.is_char_boundary(e) {
            e -= 1;
        }
        format!("{}…", &s[..e])
    }
}

fn write_evidence(cfg: &CheckCfg, total: &WorkerSummary, wall: f64, harness_errors: &[String]) {
    let (level, assumptions) = level_text(&cfg.prop);
    let zero: Vec<&String> = total.counters.iter().filter(|(_, v)| **v == 0).map(|(k, _)| k).collect();
    let server_layer = matches!(cfg.prop.as_str(), "C08" | "C09" | "C11" | "C12");
    let rule = if server_layer {
        "one evaluation = one simulated execution of the real server (scenario generated from run seed = mix(VERIF_SEED, property, index); every scheduling decision taken by the seeded scheduler). distinct_nontrivial = number of distinct (scenario-shape hash, lock/spawn/point event-sequence hash) pairs among executions in which at least one preemption, lock wait, disk event or cancel occurred"
    } else if cfg.prop == "C16" {
        "one evaluation = one include graph (9 of 10: ide layer over the simulated disk; 1 of 10: the real server opening the graph's root under the scheduler). distinct_nontrivial = distinct (graph-shape hash, event-sequence hash) among graphs with at least one include edge"
    } else {
        "one evaluation = one edit/disk history replayed on a long-lived AnalysisHost, compared after every editor action with a fresh host. distinct_nontrivial = distinct (op-kind sequence + include structure) hashes among histories with at least two ops"
    };
    let ev = json!({
        "property_id": cfg.prop,
        "tier": if cfg.tier == "thorough" { "thorough" } else { "quick" },
        "seed": cfg.verif_seed,
        "level": level,
        "wall_s": wall,
        "violations": total.violation_count,
        "coverage": {
            "evaluations": total.runs,
            "distinct_nontrivial": total.distinct_nontrivial.len(),
            "rule": rule,
            "samples": total.samples,
            "distinct_interleavings": total.distinct_interleavings.len(),
            "distinct_scenario_shapes": total.distinct_shapes.len(),
            "runs_per_hour": if wall > 0.0 { (total.runs as f64 / wall * 3600.0) as u64 } else { 0 },
            "seeds": {"verif_seed": cfg.verif_seed, "first_run_index": 0, "last_run_index": cfg.runs.saturating_sub(1)},
            "simulated_time": {"unit": "scheduler steps (the repository reads no clock)", "steps_total": total.steps_total, "steps_max_per_run": total.steps_max},
            "fault_kinds_fired_total": total.counters,
            "fault_kinds_fired_in_runs": total.fired_in_runs,
            "probes_stuck_at_zero": zero,
            "outcomes": total.outcomes,
            "profiles": total.profiles,
            "discarded_not_judged": total.discarded,
            "known_finding_matches": total.known_counts,
            "harness_errors": harness_errors,
            "real_vs_stub": {
                "real": ["syntax", "ide (db, file_system, index, handlers, line_index)", "salsa 0.16.1", "lsp::server / from_proto / to_proto", "lsp::vfs::Vfs (except fs::read_to_string)", "async-lsp Router / MainLoop / LifecycleLayer / ConcurrencyLayer / JSON framing", "std::sync::RwLock<Vfs> (admission decided by ghost)"],
                "stub": ["tokio blocking pool (simulator task per spawn_blocking)", "editor (scripted client)", "file system (in-memory disk)", "stdio (in-memory pipes)"],
                "absent": ["tokio runtime", "TracingLayer", "ClientProcessMonitorLayer"]
            },
            "workers": cfg.workers,
        },
        "assumptions": assumptions,
    });
    let path = PathBuf::from(VERIF_DIR).join("evidence").join(format!("{}.json", cfg.prop));
    let tmp = path.with_extension("json.tmp");
    let mut f = std::fs::File::create(&tmp).expect("evidence file");
    f.write_all(serde_json::to_string_pretty(&ev).unwrap().as_bytes()).unwrap();
    drop(f);
    std::fs::rename(&tmp, &path).expect("rename evidence");
}

/// `sim replay <file>`: re-runs a replay file in this (fresh) process.
pub fn replay_main(path: &Path) -> i32 {
    let s = match std::fs::read_to_string(path) {
        Ok(s) => s,
        Err(e) => {
            eprintln!("harness error: cannot read {}: {e}", path.display());
            return 2;
        }
    };
    let file: ReplayFile = match serde_json::from_str(&s) {
        Ok(f) => f,
        Err(e) => {
            eprintln!("harness error: cannot parse {}: {e}", path.display());
            return 2;
        }
    };
    let report = minimize::run_case_isolated(&file.property, &file.case, file.plan.clone());
    if report.hung {
        println!("replay of {}: the run did not finish within {:?} (watchdog)", path.display(), minimize::watchdog());
        println!("VIOLATION property={} replay={}", file.property, path.display());
        std::process::exit(1);
    }
    println!("replay of {}: outcome={} steps={} log_hash={:016x}", path.display(), report.outcome_class, report.steps, report.log_hash);
    if let Some(e) = &report.harness_error {
        eprintln!("harness error: {e}");
        return 2;
    }
    if report.counters.get("plan_diverged").copied().unwrap_or(0) > 0 {
        eprintln!("harness error: replay diverged (a planned task was not runnable)");
        return 2;
    }
    for v in &report.violations {
        println!("  [{}] {}: {}", v.property, v.class, v.detail);
    }
    match &file.violation {
        Some(expected) => {
            let same = report.violations.iter().any(|v| v.property == expected.property && v.class == expected.class);
            if same {
                if let Some(h) = file.log_hash {
                    if h != report.log_hash {
                        eprintln!("harness error: replay diverged (event log hash {:016x}, recorded {h:016x})", report.log_hash);
                        return 2;
                    }
                }
                println!("VIOLATION property={} replay={}", expected.property, path.display());
                1
            } else if report.violations.is_empty() {
                println!("the recorded violation ({}) does not occur on this tree", expected.class);
                0
            } else {
                println!("VIOLATION property={} replay={}", file.property, path.display());
                1
            }
        }
        None => {
            if report.violations.is_empty() {
                0
            } else {
                println!("VIOLATION property={} replay={}", file.property, path.display());
                1
            }
        }
    }
}

/// `sim determinism <prop> <n>`: each of n cases is executed twice in different processes
/// (workers), and scenario bytes, decisions, canonical log hash and verdict are compared.
pub fn determinism_main(prop: &str, n: u64, verif_seed: u64) -> i32 {
    let exe = std::env::current_exe().unwrap();
    let mut outs = Vec::new();
    for round in 0..2 {
        let workers = if round == 0 { 4 } else { 16 };
        let mut children = Vec::new();
        for w in 0..workers {
            let child = Command::new(&exe)
                .args(["det-worker", prop, &verif_seed.to_string(), &w.to_string(), &n.to_string(), &workers.to_string()])
                .stdout(Stdio::piped())
                .stderr(Stdio::null())
                .spawn()
                .unwrap();
            children.push(child);
        }
        let mut lines: BTreeMap<u64, String> = BTreeMap::new();
        for c in children {
            let out = c.wait_with_output().unwrap();
            for l in String::from_utf8_lossy(&out.stdout).lines() {
                if let Some(rest) = l.strip_prefix("DET ") {
                    let (idx, h) = rest.split_once(' ').unwrap();
                    lines.insert(idx.parse().unwrap(), h.to_string());
                }
            }
        }
        outs.push(lines);
    }
    let mut bad = 0;
    for i in 0..n {
        if outs[0].get(&i) != outs[1].get(&i) || outs[0].get(&i).is_none() {
            bad += 1;
            if bad <= 5 {
                eprintln!("run {i} differs: {:?} vs {:?}", outs[0].get(&i), outs[1].get(&i));
            }
        }
    }
    println!("determinism {prop}: {n} cases x 2 processes (4 and 16 workers), {bad} differ");
    if bad == 0 {
        0
    } else {
        2
    }
}

pub fn det_worker_main(args: &[String]) {
    let prop = &args[0];
    let verif_seed: u64 = args[1].parse().unwrap();
    let start: u64 = args[2].parse().unwrap();
    let end: u64 = args[3].parse().unwrap();
    let stride: u64 = args[4].parse().unwrap();
    crate::exec::install_quiet_panic_hook();
    let mut i = start;
    while i < end {
        let seed = run_seed(verif_seed, prop, i);
        let case = gen_case(prop, seed);
        let r = minimize::run_case_isolated(prop, &case, None);
        let mut h = crate::rng::StableHasher::new();
        h.str(&serde_json::to_string(&case).unwrap());
        h.u64(r.log_hash);
        for d in &r.decisions {
            h.u64(*d as u64);
        }
        h.str(&r.outcome_class);
        for v in &r.violations {
            h.str(&v.class);
        }
        println!("DET {i} {:016x}", h.finish());
        i += stride;
    }
}


/// `sim explain <file>`: prints a replay file in readable form and replays it with the event
/// log, so that a maintainer can see the interleaving that breaks the property.
pub fn explain_main(path: &Path) -> i32 {
    let file: ReplayFile = match std::fs::read_to_string(path).ok().and_then(|s| serde_json::from_str(&s).ok()) {
        Some(f) => f,
        None => {
            eprintln!("harness error: cannot read or parse {}", path.display());
            return 2;
        }
    };
    println!("property {}  (VERIF_SEED {}, run index {}, minimised: {})", file.property, file.verif_seed, file.run_index, file.minimised);
    if let Some(v) = &file.violation {
        println!("violation [{}] {}", v.class, v.detail);
    }
    println!("note: {}", file.note);
    match &file.case {
        Case::Server { scenario, .. } => {
            println!("profile {}  knobs {:?}", scenario.profile, scenario.knobs);
            for (p, st) in &scenario.disk0 {
                println!("  disk0 {p}: {st:?}");
            }
            for (i, op) in scenario.ops.iter().enumerate() {
                println!("  op {i}: {op:?}");
            }
            if let Some(plan) = &file.plan {
                let s: Vec<String> = plan.iter().map(|d| d.map(|t| t.to_string()).unwrap_or_else(|| "-".into())).collect();
                println!("schedule (task per decision; 0 client, 1 main loop, 2.. workers; then default policy): {}", s.join(" "));
            }
            let scenario = scenario.clone();
            let plan = file.plan.clone();
            let res = std::thread::Builder::new()
                .stack_size(64 << 20)
                .spawn(move || crate::exec::execute(&scenario, match plan { Some(p) => crate::exec::Sched::Plan(p), None => crate::exec::Sched::Seed(0) }))
                .unwrap()
                .join();
            if let Ok(res) = res {
                println!("outcome: {:?}", res.outcome);
                println!("events:");
                for ev in &res.events {
                    use crate::world::Ev;
                    match ev {
                        Ev::Lock { task, lock, excl, kind } => println!("  {:<10} {:?} {:?}({})", crate::world::role_name(*task), kind, lock, if *excl { "W" } else { "R" }),
                        Ev::Spawn { task, worker } => println!("  {:<10} spawns worker#{worker}", crate::world::role_name(*task)),
                        Ev::Point { task, label } => println!("  {:<10} at {label}", crate::world::role_name(*task)),
                        Ev::Cond { task, cond, kind } => println!("  {:<10} {kind} Condvar({cond})", crate::world::role_name(*task)),
                        Ev::DiskRead { task, path, found } => println!("  {:<10} reads {} ({})", crate::world::role_name(*task), path.display(), if *found { "ok" } else { "fails" }),
                        Ev::ClientSend { op } => println!("  client     sends op {op}"),
                        _ => {}
                    }
                }
            }
        }
        Case::Graph(g) => {
            println!("include graph (root {}), INCLUDE_DIR {:?}, unreadable {:?}, missing now {:?}, missing at the second selection {:?}", g.files[g.root].path, g.include_dir, g.unreadable, g.hidden, g.second_hidden);
            for f in &g.files {
                println!("  {} includes {:?}", f.path, f.includes.iter().map(|i| if i.nested { format!("(nested) {}", i.name) } else { i.name.clone() }).collect::<Vec<_>>());
            }
        }
        Case::Hist(h) => {
            for (p, t) in &h.disk0 {
                println!("  disk0 {p}: {t:?}");
            }
            for (i, op) in h.ops.iter().enumerate() {
                println!("  op {i}: {op:?}");
            }
        }
    }
    0
}
