//! One simulated execution of the real server: scenario + scheduler in, outcome + history out.

use std::collections::{BTreeMap, BTreeSet};
use std::num::NonZeroUsize;
use std::path::PathBuf;
use std::rc::Rc;
use std::sync::{Arc, Mutex};

use async_lsp::concurrency::ConcurrencyLayer;
use async_lsp::server::LifecycleLayer;
use serde_json::{json, Value};
use tower::ServiceBuilder;

use crate::refmap::RefMap;
use crate::rng::Rng;
use crate::scenario::{Op, ReqKind, Scenario};
use crate::sched::{ReplayScheduler, SeedScheduler, SharedTrace, Trace};
use crate::world::{self, Counters, Ev, FileState, ServerStdin, ServerStdout, Sim, WorldCfg};

pub const STACK_SIZE: usize = 16 << 20;
pub const MAX_STEPS: usize = 200_000;
pub const READ_BUDGET: u64 = 10_000;

#[derive(Clone, Debug, PartialEq, Eq)]
pub enum Outcome {
    Completed,
    /// no runnable task while some task is unfinished
    Deadlock { blocked: String, locks: Vec<String> },
    StepLimit,
    ReadBudget,
    /// panic in the server or a worker (outside the claimed properties unless stated)
    Panic { message: String },
    /// the harness itself failed (ghost/real divergence, client protocol confusion)
    Harness { message: String },
}

impl Outcome {
    pub fn class(&self) -> &'static str {
        match self {
            Outcome::Completed => "completed",
            Outcome::Deadlock { .. } => "deadlock",
            Outcome::StepLimit => "step-limit",
            Outcome::ReadBudget => "read-budget",
            Outcome::Panic { .. } => "panic",
            Outcome::Harness { .. } => "harness",
        }
    }
}

/// One message received from the server, in wire order.
#[derive(Clone, Debug)]
pub struct Received {
    /// number of scenario ops the client had sent when it read this message
    pub ops_sent: usize,
    pub msg: Value,
}

#[derive(Clone, Debug, Default)]
pub struct History {
    pub received: Vec<Received>,
    /// request id -> scenario op index (None: harness-internal request)
    pub request_ops: BTreeMap<i64, Option<usize>>,
    /// ids the client cancelled
    pub cancelled: BTreeSet<i64>,
    /// id of the closing documentSymbol request and the path it was sent for
    pub closing_symbol: Option<(i64, String)>,
    /// id of the barrier answered last (its response marks quiescence)
    pub final_barrier: Option<i64>,
    /// wire indices (into `received`) at which a Sync completed, with the op index of that Sync
    pub sync_marks: Vec<(usize, usize)>,
    pub ops_completed: usize,
    pub shutdown_answered: bool,
    pub client_finished: bool,
}

pub struct ExecResult {
    pub outcome: Outcome,
    pub history: History,
    pub events: Vec<Ev>,
    pub counters: Counters,
    pub trace: Trace,
    pub steps: usize,
}

pub enum Sched {
    Seed(u64),
    Plan(Vec<Option<u16>>),
}

thread_local! {
    static LAST_PANIC: std::cell::RefCell<Option<String>> = const { std::cell::RefCell::new(None) };
}

/// Installs (once per process) a panic hook that records the message instead of printing it.
pub fn install_quiet_panic_hook() {
    static ONCE: std::sync::Once = std::sync::Once::new();
    ONCE.call_once(|| {
        let verbose = std::env::var("VERIF_VERBOSE_PANICS").is_ok();
        let default = std::panic::take_hook();
        std::panic::set_hook(Box::new(move |info| {
            let msg = if let Some(s) = info.payload().downcast_ref::<&str>() {
                s.to_string()
            } else if let Some(s) = info.payload().downcast_ref::<String>() {
                s.clone()
            } else {
                "<non-string panic>".to_string()
            };
            let loc = info.location().map(|l| format!(" at {}:{}", l.file(), l.line())).unwrap_or_default();
            LAST_PANIC.with(|p| {
                let mut p = p.borrow_mut();
                // keep the FIRST panic of an execution: later ones are consequences
                if p.is_none() {
                    *p = Some(format!("{msg}{loc}"));
                }
            });
            if verbose {
                default(info);
            }
        }));
    });
}

pub fn take_last_panic() -> Option<String> {
    LAST_PANIC.with(|p| p.borrow_mut().take())
}

pub fn uri_of(path: &str) -> String {
    format!("file://{path}")
}

/// The same URI the way VS Code writes it: reserved characters percent-encoded.
pub fn vscode_uri_of(path: &str) -> String {
    let mut s = String::from("file://");
    for c in path.chars() {
        match c {
            '+' | '@' | '(' | ')' | '[' | ']' | ',' | ';' | '=' | '&' | '$' | '!' | '\'' | '*' | ':' | ' ' | '%' => {
                s.push_str(&format!("%{:02X}", c as u32))
            }
            c => s.push(c),
        }
    }
    s
}

fn percent_decode(s: &str) -> String {
    let b = s.as_bytes();
    let mut out = Vec::with_capacity(b.len());
    let mut i = 0;
    while i < b.len() {
        if b[i] == b'%' && i + 2 < b.len() {
            if let Ok(v) = u8::from_str_radix(&s[i + 1..i + 3], 16) {
                out.push(v);
                i += 3;
                continue;
            }
        }
        out.push(b[i]);
        i += 1;
    }
    String::from_utf8_lossy(&out).into_owned()
}

pub fn path_of_uri(uri: &str) -> String {
    crate::model::norm_path(&percent_decode(uri.strip_prefix("file://").unwrap_or(uri)))
}

fn frame(v: &Value) -> Vec<u8> {
    let body = serde_json::to_vec(v).unwrap();
    let mut out = format!("Content-Length: {}\r\n\r\n", body.len()).into_bytes();
    out.extend(body);
    out
}

struct Client<'a> {
    vscode_uris: bool,
    sim: Rc<Sim>,
    scenario: &'a Scenario,
    hist: Arc<Mutex<History>>,
    chunk_rng: Rng,
    next_id: i64,
    outstanding: BTreeSet<i64>,
    ops_sent: usize,
    /// texts the client believes each open document has
    open: BTreeMap<String, String>,
    last_touched: Option<String>,
    op_request_id: BTreeMap<usize, i64>,
    /// LSP document versions: 1 at didOpen, +1 per didChange, forgotten at didClose (a
    /// re-opened document starts at 1 again, as editors do)
    doc_versions: BTreeMap<String, i64>,
}

impl<'a> Client<'a> {
    fn send(&mut self, v: Value) {
        let bytes = frame(&v);
        let max_chunks = self.scenario.knobs.max_chunks.max(1);
        let n_chunks = if max_chunks == 1 { 1 } else { self.chunk_rng.range(1, max_chunks) };
        let mut cuts: Vec<usize> = (1..n_chunks).map(|_| self.chunk_rng.range(1, bytes.len() - 1)).collect();
        cuts.sort_unstable();
        cuts.dedup();
        if !cuts.is_empty() {
            self.sim.with(|st| st.counters.input_fragments += cuts.len() as u64);
        }
        let mut start = 0;
        for c in cuts.into_iter().chain(std::iter::once(bytes.len())) {
            self.sim.client_write(bytes[start..c].to_vec());
            start = c;
        }
    }

    fn request(&mut self, method: &str, params: Value, op: Option<usize>) -> i64 {
        let id = self.next_id;
        self.next_id += 1;
        self.outstanding.insert(id);
        self.hist.lock().unwrap().request_ops.insert(id, op);
        self.send(json!({"jsonrpc":"2.0","id":id,"method":method,"params":params}));
        id
    }

    fn notify(&mut self, method: &str, params: Value) {
        self.send(json!({"jsonrpc":"2.0","method":method,"params":params}));
    }

    /// Reads one message; returns false when the server closed the stream.
    fn read_one(&mut self) -> bool {
        let Some(body) = self.sim.client_read_message() else {
            return false;
        };
        let msg: Value = match serde_json::from_slice(&body) {
            Ok(v) => v,
            Err(e) => panic!("verif-harness: server sent invalid JSON: {e}"),
        };
        if msg.get("method").is_none() {
            if let Some(id) = msg.get("id").and_then(|i| i.as_i64()) {
                self.outstanding.remove(&id);
            }
        }
        self.hist.lock().unwrap().received.push(Received { ops_sent: self.ops_sent, msg });
        true
    }

    fn read_until_answered(&mut self, ids: &[i64]) {
        while ids.iter().any(|i| self.outstanding.contains(i)) {
            if !self.read_one() {
                panic!("verif-harness: server closed its output while requests were outstanding");
            }
        }
    }

    fn barrier(&mut self) -> i64 {
        let id = self.request("verif/barrier", json!({}), None);
        // everything outstanding, the barrier included
        let all: Vec<i64> = self.outstanding.iter().copied().collect();
        self.read_until_answered(&all);
        id
    }

    /// Quiescence: every request answered, every worker finished, every publish on the wire.
    fn sync(&mut self) -> i64 {
        self.barrier();
        loop {
            let workers = self.sim.take_workers();
            let futures = self.sim.take_future_workers();
            if workers.is_empty() && futures.is_empty() {
                break;
            }
            for w in workers {
                let _ = w.join();
            }
            for f in futures {
                let _ = shuttle::future::block_on(f);
            }
        }
        self.barrier()
    }

    fn uri(&self, path: &str) -> String {
        if self.vscode_uris {
            vscode_uri_of(path)
        } else {
            uri_of(path)
        }
    }

    fn bump_version(&mut self, path: &str, open: bool) -> i64 {
        let v = if open { 1 } else { self.doc_versions.get(path).copied().unwrap_or(0) + 1 };
        self.doc_versions.insert(path.to_string(), v);
        v
    }

    fn position(&self, path: &str, offset: u32) -> Value {
        let text = self.open.get(path).cloned().unwrap_or_default();
        let (line, character) = RefMap::new(&text).position(offset as usize);
        json!({"line": line, "character": character})
    }

    fn end_position(&self, path: &str) -> Value {
        let text = self.open.get(path).cloned().unwrap_or_default();
        let (line, character) = RefMap::new(&text).position(text.len());
        json!({"line": line, "character": character})
    }

    fn run_op(&mut self, idx: usize, op: &Op) {
        match op {
            Op::Open { path, text } => {
                self.open.insert(path.clone(), text.clone());
                self.sim.with(|st| st.editor_open.insert(PathBuf::from(path), text.clone()));
                self.last_touched = Some(path.clone());
                let version = self.bump_version(path, true);
                self.notify(
                    "textDocument/didOpen",
                    json!({"textDocument":{"uri":self.uri(path),"languageId":"tablegen","version":version,"text":text}}),
                );
            }
            Op::Change { path, text } => {
                self.open.insert(path.clone(), text.clone());
                self.sim.with(|st| st.editor_open.insert(PathBuf::from(path), text.clone()));
                self.last_touched = Some(path.clone());
                let version = self.bump_version(path, false);
                self.notify(
                    "textDocument/didChange",
                    json!({"textDocument":{"uri":self.uri(path),"version":version},"contentChanges":[{"text":text}]}),
                );
            }
            Op::Request { kind, path, offset } => {
                let doc = json!({"uri": self.uri(path)});
                let params = match kind {
                    ReqKind::DocumentSymbol | ReqKind::DocumentLink | ReqKind::FoldingRange => {
                        json!({"textDocument": doc})
                    }
                    ReqKind::Definition | ReqKind::Hover | ReqKind::Completion => {
                        json!({"textDocument": doc, "position": self.position(path, *offset)})
                    }
                    ReqKind::References => {
                        json!({"textDocument": doc, "position": self.position(path, *offset),
                               "context": {"includeDeclaration": true}})
                    }
                    ReqKind::InlayHint => {
                        // offset 0: the whole document; an even offset: from the start up to
                        // it; an odd one: from it to the end (partial ranges, as a scrolling
                        // editor asks for - here also with ends inside a token)
                        let len = self.open.get(path).map(|t| t.len()).unwrap_or(0) as u32;
                        let o = (*offset).min(len);
                        let (st, en) = if o == 0 {
                            (json!({"line":0,"character":0}), self.end_position(path))
                        } else if o % 2 == 0 {
                            (json!({"line":0,"character":0}), self.position(path, o))
                        } else {
                            (self.position(path, o), self.end_position(path))
                        };
                        json!({"textDocument": doc, "range": {"start": st, "end": en}})
                    }
                };
                let id = self.request(kind.method(), params, Some(idx));
                self.op_request_id.insert(idx, id);
            }
            Op::Cancel { op } => {
                if let Some(id) = self.op_request_id.get(op).copied() {
                    self.hist.lock().unwrap().cancelled.insert(id);
                    self.notify("$/cancelRequest", json!({"id": id}));
                }
            }
            Op::Change2 { path, first, text } => {
                self.open.insert(path.clone(), text.clone());
                self.sim.with(|st| st.editor_open.insert(PathBuf::from(path), text.clone()));
                self.last_touched = Some(path.clone());
                let version = self.bump_version(path, false);
                self.notify(
                    "textDocument/didChange",
                    json!({"textDocument":{"uri":self.uri(path),"version":version},"contentChanges":[{"text":first},{"text":text}]}),
                );
            }
            Op::EmptyChange { path } => {
                let version = self.bump_version(path, false);
                self.notify(
                    "textDocument/didChange",
                    json!({"textDocument":{"uri":self.uri(path),"version":version},"contentChanges":[]}),
                );
            }
            Op::Save { path } => {
                self.notify("textDocument/didSave", json!({"textDocument":{"uri":self.uri(path)}}));
            }
            Op::Close { path } => {
                self.doc_versions.remove(path);
                self.open.remove(path);
                self.sim.with(|st| st.editor_open.remove(&PathBuf::from(path)));
                self.notify("textDocument/didClose", json!({"textDocument":{"uri":self.uri(path)}}));
            }
            Op::DiskWrite { path, text } => {
                self.sim.with(|st| st.disk.insert(PathBuf::from(path), FileState::Text(text.clone())));
                self.sim.sched_point();
            }
            Op::DiskRemove { path } => {
                self.sim.with(|st| st.disk.remove(&PathBuf::from(path)));
                self.sim.sched_point();
            }
            Op::DiskUnreadable { path } => {
                self.sim.with(|st| st.disk.insert(PathBuf::from(path), FileState::Unreadable));
                self.sim.sched_point();
            }
            Op::Sync => {
                self.sync();
                let mut h = self.hist.lock().unwrap();
                let at = h.received.len();
                h.sync_marks.push((at, idx));
            }
        }
    }

    fn run(&mut self) {
        let init = self.request(
            "initialize",
            json!({"processId": null, "rootUri": null, "capabilities": {}}),
            None,
        );
        self.read_until_answered(&[init]);
        self.notify("initialized", json!({}));

        for (idx, op) in self.scenario.ops.iter().enumerate() {
            self.sim.log(Ev::ClientSend { op: idx });
            self.run_op(idx, op);
            self.ops_sent = idx + 1;
            self.hist.lock().unwrap().ops_completed = idx + 1;
        }

        // closing probe: the outline of the last touched document after everything settled
        self.sync();
        if let Some(path) = self.last_touched.clone() {
            let id = self.request(ReqKind::DocumentSymbol.method(), json!({"textDocument":{"uri":self.uri(&path)}}), None);
            self.hist.lock().unwrap().closing_symbol = Some((id, path));
        }
        let last = self.sync();
        self.hist.lock().unwrap().final_barrier = Some(last);

        let shutdown = self.request("shutdown", Value::Null, None);
        self.read_until_answered(&[shutdown]);
        self.hist.lock().unwrap().shutdown_answered = true;
        self.notify("exit", Value::Null);
        self.sim.client_close_stdin();
        // drain until the server closes its side
        while self.read_one() {}
    }
}

fn server_main(concurrency: usize) {
    let (mainloop, _client) = async_lsp::MainLoop::new_server(|client| {
        ServiceBuilder::new()
            .layer(LifecycleLayer::default())
            .layer(ConcurrencyLayer::new(NonZeroUsize::new(concurrency.max(1)).unwrap()))
            .service(lsp::server::Server::new_router(client))
    });
    let res = shuttle::future::block_on(mainloop.run_buffered(ServerStdin, ServerStdout));
    if let Err(e) = res {
        // `exit` ends the loop with Ok; EOF after exit is fine too
        let s = format!("{e}");
        if !s.contains("EOF") && !s.contains("eof") {
            panic!("verif-harness: main loop ended with error: {s}");
        }
    }
}

/// Runs `scenario` once on the calling OS thread (which must not be inside another execution).
pub fn execute(scenario: &Scenario, sched: Sched) -> ExecResult {
    world::install_hooks();
    install_quiet_panic_hook();
    take_last_panic();

    match &scenario.knobs.include_dir {
        Some(d) => std::env::set_var("INCLUDE_DIR", d),
        None => std::env::remove_var("INCLUDE_DIR"),
    }

    let hist: Arc<Mutex<History>> = Default::default();
    let (scheduler, trace): (Box<dyn shuttle::scheduler::Scheduler + Send>, SharedTrace) = match sched {
        Sched::Seed(seed) => {
            let (s, t) = SeedScheduler::new(seed, scenario.knobs.strategy.clone());
            (Box::new(s), t)
        }
        Sched::Plan(plan) => {
            let (s, t) = ReplayScheduler::new(plan);
            (Box::new(s), t)
        }
    };

    let mut cfg = shuttle::Config::new();
    cfg.stack_size = STACK_SIZE;
    cfg.max_steps = shuttle::MaxSteps::FailAfter(MAX_STEPS);
    cfg.failure_persistence = shuttle::FailurePersistence::None;
    cfg.silence_warnings = true;

    let disk: BTreeMap<PathBuf, FileState> =
        scenario.disk0.iter().map(|(p, s)| (PathBuf::from(p), s.clone())).collect();
    let sim = Sim::install(WorldCfg {
        disk,
        out_capacity: scenario.knobs.out_capacity,
        read_budget: READ_BUDGET,
        stack_size: STACK_SIZE,
    });

    let scen = scenario.clone();
    let hist2 = hist.clone();
    let concurrency = scenario.knobs.concurrency;
    let result = std::panic::catch_unwind(std::panic::AssertUnwindSafe(|| {
        let runner = shuttle::Runner::new(scheduler, cfg);
        runner.run(move || {
            let sim = world::current().expect("sim");
            let server = shuttle::thread::Builder::new()
                .stack_size(STACK_SIZE)
                .spawn(move || server_main(concurrency))
                .unwrap();
            let mut client = Client {
                vscode_uris: scen.knobs.vscode_uris,
                sim,
                scenario: &scen,
                hist: hist2.clone(),
                chunk_rng: Rng::new(scen.knobs.chunk_seed),
                next_id: 1,
                outstanding: BTreeSet::new(),
                ops_sent: 0,
                open: BTreeMap::new(),
                last_touched: None,
                op_request_id: BTreeMap::new(),
                doc_versions: BTreeMap::new(),
            };
            client.run();
            let _ = server.join();
            hist2.lock().unwrap().client_finished = true;
        });
    }));

    let lock_report = sim.lock_report();
    let (events, counters) = sim.with(|st| (std::mem::take(&mut st.events), st.counters.clone()));
    Sim::uninstall();
    drop(sim);

    let first_panic = take_last_panic();
    let outcome = match result {
        Ok(()) => Outcome::Completed,
        Err(payload) => {
            let top = if let Some(s) = payload.downcast_ref::<&str>() {
                s.to_string()
            } else if let Some(s) = payload.downcast_ref::<String>() {
                s.clone()
            } else {
                String::new()
            };
            let first = first_panic.unwrap_or_else(|| top.clone());
            if first.contains(world::READ_BUDGET_MSG) {
                Outcome::ReadBudget
            } else if first.contains("verif-harness") || first.contains("verif: lock model diverged") {
                Outcome::Harness { message: first }
            } else if top.starts_with("deadlock!") || first.starts_with("deadlock!") {
                Outcome::Deadlock { blocked: top, locks: lock_report }
            } else if top.contains("exceeded max_steps bound") || first.contains("exceeded max_steps bound") {
                Outcome::StepLimit
            } else {
                Outcome::Panic { message: first }
            }
        }
    };

    let trace = trace.lock().unwrap().clone();
    let history = hist.lock().unwrap().clone();
    let steps = trace.decisions.len();
    ExecResult { outcome, history, events, counters, trace, steps }
}

/// Runs one execution on a fresh OS thread (fresh thread-locals, big stack).
pub fn execute_isolated(scenario: &Scenario, sched: Sched) -> ExecResult {
    let scenario = scenario.clone();
    let h = std::thread::Builder::new()
        .stack_size(64 << 20)
        .spawn(move || execute(&scenario, sched))
        .expect("spawn execution thread");
    match h.join() {
        Ok(r) => r,
        Err(_) => ExecResult {
            outcome: Outcome::Harness { message: "execution thread panicked outside the simulation".into() },
            history: History::default(),
            events: vec![],
            counters: Counters::default(),
            trace: Trace::default(),
            steps: 0,
        },
    }
}
