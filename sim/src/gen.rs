//! Workspace, text and scenario generators. Everything is drawn from an explicit `Rng`
//! before the execution starts.
//!
//! Texts are not random strings: each file version is rendered from a small spec, one
//! statement per line (so that shrinking can drop lines), and carries a UNIQUE marker class
//! `V_<n>` (and, where a diagnostic is wanted, a unique undefined name `U_<n>`), so that every
//! outline or diagnostic the server sends is attributable to exactly one written version.

use std::collections::BTreeMap;

use crate::rng::Rng;
use crate::scenario::{Knobs, Op, ReqKind, Scenario, ALL_REQ_KINDS};
use crate::sched::Strategy;
use crate::world::FileState;

#[derive(Clone, Copy, Debug, PartialEq, Eq)]
pub enum Eol {
    Lf,
    CrLf,
    Cr,
}

impl Eol {
    fn s(self) -> &'static str {
        match self {
            Eol::Lf => "\n",
            Eol::CrLf => "\r\n",
            Eol::Cr => "\r",
        }
    }
}

#[derive(Clone, Copy, Debug, PartialEq, Eq)]
pub enum Alphabet {
    Ascii,
    /// 2- and 3-byte characters in comments and string literals
    Bmp,
    /// 4-byte characters (two UTF-16 units) as well
    Astral,
}

#[derive(Clone, Debug, PartialEq, Eq)]
pub enum Fault {
    /// `def E_<n> : U_<n>;` — a unique undefined parent class
    UndefinedClass,
    /// a statement the parser rejects (reported only when the file is the root)
    Syntax,
    /// `include "missing_<n>.td"`
    MissingInclude,
    /// an unfinished statement as the very last token of the file, no final line break: the
    /// error sits at end of file (zero-length range)
    EofSyntax,
}

/// One version of one file.
#[derive(Clone, Debug)]
pub struct TextSpec {
    /// short file key used in names: "a", "b", ...
    pub key: String,
    /// unique version number (marker)
    pub version: u32,
    /// number of leading comment / blank lines (makes line tables of files differ)
    pub lead: usize,
    /// include targets, as written in the include statement
    pub includes: Vec<String>,
    /// keys of files whose class `K_<key>` this file derives a def from
    pub uses: Vec<String>,
    pub template_use: Option<String>,
    pub fault: Option<Fault>,
    /// identifies the fault (unique when created, STABLE across later edits of the file, so
    /// that the same problem can persist while the text around it changes)
    pub fault_id: u32,
    /// the fault statement sits on the same line as the statement before it (a blank of the
    /// same byte length replaces the line break: byte offsets stay, line/column change)
    pub joined: bool,
    pub eol: Eol,
    pub alphabet: Alphabet,
    /// put a string-literal field with non-ASCII text on the same line before an identifier
    pub inline_wide: bool,
    /// spell include paths as "./name" (the same file, written differently)
    pub dotted: bool,
    /// preprocessor: the file defines a macro of its own and guards declarations with
    /// #ifdef / #ifndef on its own macro and on the macro of file `a` (macros do not cross file
    /// boundaries in this implementation, so the latter is a region that must stay disabled)
    pub pp: bool,
    /// filler declarations (a large file: tens of kilobytes) and additional faults (many
    /// diagnostics) - size thresholds are a classic blind spot of small generated inputs
    pub bulk: usize,
    /// the filler declaration in the MIDDLE of the bulk is spelled with another letter of the
    /// same length; toggled by an edit that changes nothing else (not even the marker)
    pub bulk_variant: bool,
    /// keys of used files that are large: this file refers to the class in the middle of their
    /// bulk (`BM_<key>`), so that a stale middle of an included file shows in THIS file's
    /// diagnostics
    pub probe_bm: Vec<String>,
    pub extra_faults: usize,
    /// a declaration placed behind a block comment of this many characters on the SAME line
    /// (columns beyond 255 / 65535)
    pub long_col: usize,
    /// trailing blanks and a comment after statements (trivia after the last token)
    pub trail: bool,
    /// the text does not end with a line break
    pub no_final_eol: bool,
    /// the text starts with a UTF-8 byte order mark (U+FEFF), as some editors write it
    pub bom: bool,
    /// boundary texts: 1 = completely empty, 2 = nothing but a comment
    pub blank: u8,
    /// pad the text with a trailing comment to exactly this many bytes (powers of two)
    pub pad_to: usize,
    /// also declare `class DUP;` (the same name in several files: a coincidence real projects have)
    pub dup_class: bool,
    /// add multi-line constructs: a defset with an anonymous def, a class whose template
    /// arguments continue on the next line, let / foreach blocks, a def spanning two lines
    pub rich: bool,
    /// more of the language: multiclass / defm, defvar, if / else, bang operators, lists,
    /// assert, a field referring to an inherited field
    pub rich2: bool,
    /// the include statements sit inside the body of a defset (the declarations of the included
    /// files become members of a set declared in THIS file)
    pub inc_in_defset: bool,
}

fn wide(alphabet: Alphabet, n: u32) -> &'static str {
    match alphabet {
        Alphabet::Ascii => "plain",
        // also characters that Unicode calls line or paragraph separators but the protocol
        // does not: only LF, CR LF and CR end a line there (NEL, LS, PS, VT, FF do not)
        Alphabet::Bmp => ["é", "日本", "ß→λ", "a\u{2028}b", "n\u{85}l", "v\u{0B}f\u{0C}p\u{2029}"][n as usize % 6],
        Alphabet::Astral => ["😀", "𝒳é", "日😀"][n as usize % 3],
    }
}

impl TextSpec {
    pub fn render(&self) -> String {
        let e = self.eol.s();
        let k = &self.key;
        let n = self.version;
        if self.blank == 1 {
            return String::new();
        }
        if self.blank == 2 {
            return format!("// nothing but a comment {}{}", self.version, self.eol.s());
        }
        let mut s = String::new();
        if self.bom {
            s.push('\u{FEFF}');
        }
        for i in 0..self.lead {
            if i % 2 == 0 {
                s.push_str(&format!("// {} lead {}{}", wide(self.alphabet, n + i as u32), i, e));
            } else {
                s.push_str(e);
            }
        }
        let in_set = self.inc_in_defset && !self.includes.is_empty();
        if in_set {
            s.push_str(&format!("class IB_{k};{e}defset list<IB_{k}> IS_{k} = {{{e}"));
        }
        for inc in &self.includes {
            if in_set {
                s.push_str("  ");
            }
            if self.dotted && self.version % 2 == 0 {
                // through the parent directory and back ("/w+x/../w+x/b.td")
                s.push_str(&format!("include \"../w+x/{inc}\"{e}"));
            } else if self.dotted {
                s.push_str(&format!("include \"./{inc}\"{e}"));
            } else {
                s.push_str(&format!("include \"{inc}\"{e}"));
            }
        }
        if in_set {
            s.push_str(&format!("}}{e}"));
        }
        if self.pp {
            s.push_str(&format!("#define F_{k}{e}"));
        }
        s.push_str(&format!("class V_{n:04};{e}"));
        if self.inline_wide {
            s.push_str(&format!(
                "class K_{k} {{ string s = \"{}\"; int x = 1; int width = 8; }}{e}",
                wide(self.alphabet, n)
            ));
        } else {
            s.push_str(&format!("class K_{k} {{ int x = 1; int width = 8; }}{e}"));
        }
        s.push_str(&format!("// doc of T_{k} {}{e}class T_{k}<int p> {{ int q = p; }}{e}", wide(self.alphabet, n + 1)));
        s.push_str(&format!("def D_{k} : K_{k};{e}"));
        if self.pp {
            s.push_str(&format!("#ifdef F_{k}{e}def PD_{k} : K_{k};{e}#else{e}def PE_{k} : K_{k};{e}#endif{e}"));
            let other = if k == "a" { "b" } else { "a" };
            s.push_str(&format!("#ifdef F_{other}{e}def PX_{k} : K_{k};{e}#endif{e}"));
            s.push_str(&format!("#ifndef F_{other}{e}def PN_{k} : K_{k};{e}#endif{e}"));
        }
        if self.rich {
            s.push_str(&format!("defset list<K_{k}> S_{k} = {{{e}  def : K_{k} {{{e}    let x = 3;{e}  }}{e}  def N_{k} : K_{k};{e}}}{e}"));
            s.push_str(&format!("class M_{k}<int p,{e}          int q> {{{e}  int y = p;{e}}}{e}"));
            s.push_str(&format!("let x = 5 in {{{e}  def L_{k} : K_{k};{e}}}{e}"));
            s.push_str(&format!("foreach i = [1, 2] in {{{e}  def : M_{k}<i, 2>;{e}}}{e}"));
            s.push_str(&format!("def X_{k} : M_{k}<1,{e}              2>;{e}"));
        }
        if self.rich2 {
            s.push_str(&format!("class N_{k}<int p, int q> {{ int y = p; }}{e}"));
            s.push_str(&format!("multiclass MC_{k}<int n> {{{e}  def _one : K_{k} {{{e}    let x = n;{e}  }}{e}  def _two : N_{k}<n, 2>;{e}}}{e}"));
            s.push_str(&format!("defm DM_{k} : MC_{k}<4>;{e}"));
            s.push_str(&format!("defvar W_{k} = 7;{e}"));
            s.push_str(&format!("if !eq(W_{k}, 7) then {{{e}  def IF_{k} : K_{k};{e}}} else {{{e}  def EL_{k} : K_{k};{e}}}{e}"));
            s.push_str(&format!("class BO_{k} {{{e}  int s = !add(1, 2);{e}  string t = !strconcat(\"a\", \"b\");{e}  list<int> l = [1, 2, 3];{e}  bit b = !lt(1, 2);{e}}}{e}"));
            s.push_str(&format!("assert !eq(W_{k}, 7), \"seven\";{e}"));
            s.push_str(&format!("def FA_{k} : K_{k} {{{e}  int z = x;{e}}}{e}"));
        }
        for u in &self.uses {
            s.push_str(&format!("def D_{k}_{u} : K_{u} {{ let x = 2; let width = 16; }}{e}"));
        }
        for u in &self.probe_bm {
            s.push_str(&format!("def DBM_{k}_{u} : BM_{u};{e}"));
        }
        if let Some(u) = &self.template_use {
            s.push_str(&format!("def DT_{k}_{u} : T_{u}<3>;{e}"));
        }
        if self.long_col > 0 {
            s.push_str(&format!("/* {} */ def LC_{k} : K_{k};{e}", "x".repeat(self.long_col)));
        }
        for i in 0..self.bulk {
            if i == self.bulk / 2 {
                // same length either way
                let name = if self.bulk_variant { "QM" } else { "BM" };
                s.push_str(&format!("class {name}_{k};{e}"));
                continue;
            }
            s.push_str(&format!("def B_{k}_{i} : K_{k} {{ let x = {i}; }}{e}"));
        }
        for i in 0..self.extra_faults {
            s.push_str(&format!("def EX_{}_{i} : UX_{}_{i};{e}", self.fault_id, self.fault_id));
        }
        if self.fault.is_some() && self.joined {
            // replace the last line break by blanks of the same length
            let cut = s.len() - e.len();
            s.truncate(cut);
            s.push_str(&" ".repeat(e.len()));
        }
        let f = self.fault_id;
        match &self.fault {
            Some(Fault::UndefinedClass) => s.push_str(&format!("def E_{f} : U_{f};{e}")),
            Some(Fault::Syntax) => s.push_str(&format!("class S_{f} {{ int }}{e}")),
            Some(Fault::MissingInclude) => s.push_str(&format!("include \"missing_{f}.td\"{e}")),
            Some(Fault::EofSyntax) => s.push_str(&format!("def E_{f} : K_{k}")),
            None => {}
        }
        if self.trail {
            // trivia after the last token of every statement line
            let tail = format!("   // t {}", wide(self.alphabet, n + 2));
            s = s
                .split(e)
                .map(|l| if l.ends_with(';') || l.ends_with('}') { format!("{l}{tail}") } else { l.to_string() })
                .collect::<Vec<_>>()
                .join(e);
        }
        if self.dup_class {
            s.push_str(&format!("class DUP;{e}"));
        }
        if self.pad_to > s.len() + 4 + e.len() && self.fault != Some(Fault::EofSyntax) {
            // a trailing comment that brings the text to exactly `pad_to` bytes
            let fill = self.pad_to - s.len() - 3 - e.len();
            s.push_str(&format!("// {}{e}", "p".repeat(fill)));
        } else if self.no_final_eol && s.ends_with(e) {
            let cut = s.len() - e.len();
            s.truncate(cut);
        }
        s
    }
}

/// Byte offsets of identifier-like tokens (`[A-Za-z_][A-Za-z0-9_]*`) outside comments and
/// string literals: the positions a user can put the cursor on. Returned as (offset, text).
pub fn identifier_offsets(text: &str) -> Vec<(u32, String)> {
    let b = text.as_bytes();
    let mut out = Vec::new();
    let mut i = 0;
    while i < b.len() {
        let c = b[i];
        if c == b'/' && i + 1 < b.len() && b[i + 1] == b'/' {
            while i < b.len() && b[i] != b'\n' && b[i] != b'\r' {
                i += 1;
            }
        } else if c == b'"' {
            i += 1;
            while i < b.len() && b[i] != b'"' && b[i] != b'\n' && b[i] != b'\r' {
                i += 1;
            }
            i += 1;
        } else if c.is_ascii_alphabetic() || c == b'_' {
            let start = i;
            while i < b.len() && (b[i].is_ascii_alphanumeric() || b[i] == b'_') {
                i += 1;
            }
            out.push((start as u32, text[start..i].to_string()));
        } else {
            i += 1;
        }
    }
    out
}

const KEYWORDS: [&str; 19] = ["include", "class", "def", "int", "string", "let", "defset", "in", "bit", "foreach", "list", "multiclass", "defm", "defvar", "if", "then", "else", "assert", "dump"];

/// Offsets of identifiers that are names (not keywords): where requests are interesting.
pub fn name_offsets(text: &str) -> Vec<(u32, String)> {
    identifier_offsets(text).into_iter().filter(|(_, t)| !KEYWORDS.contains(&t.as_str())).collect()
}

// the directory name has a character that editors percent-encode in URIs and the url crate
// does not ("clang+llvm-18" is a real example)
pub const DIR: &str = "/w+x";
pub const INC_DIR: &str = "/w+x/inc";

pub fn path_of_key(key: &str) -> String {
    if key == "d" {
        // lives only in the INCLUDE_DIR search directory
        format!("{INC_DIR}/{key}.td")
    } else {
        format!("{DIR}/{key}.td")
    }
}

pub fn include_name(key: &str) -> String {
    format!("{key}.td")
}

/// Monotone supply of version numbers for one scenario.
pub struct Versions(pub u32);

impl Versions {
    pub fn next(&mut self) -> u32 {
        self.0 += 1;
        self.0
    }
}

#[derive(Clone, Debug)]
pub struct GenCfg {
    pub alphabet: Alphabet,
    pub eol: Eol,
    pub allow_faults: bool,
    pub allow_syntax_fault: bool,
    pub max_lead: usize,
    /// keys a file may ALSO include regardless of order (itself, an includer): include cycles.
    /// Empty: acyclic workspaces only.
    pub cycle_keys: Vec<String>,
}

/// A fresh version of file `key`. `others`: keys it may include (acyclicity is the caller's
/// business: pass only keys "greater" than `key`).
pub fn gen_text(rng: &mut Rng, vs: &mut Versions, key: &str, includable: &[&str], cfg: &GenCfg) -> TextSpec {
    let mut includes = Vec::new();
    let mut uses = Vec::new();
    let mut template_use = None;
    for o in includable {
        if rng.chance(2, 3) {
            includes.push(include_name(o));
            if rng.chance(3, 4) {
                uses.push(o.to_string());
            }
            if template_use.is_none() && rng.chance(1, 2) {
                template_use = Some(o.to_string());
            }
        }
    }
    if !cfg.cycle_keys.is_empty() && rng.chance(1, 5) {
        // a back edge (or a self-include): an include cycle
        let o = rng.pick(&cfg.cycle_keys).clone();
        let name = include_name(&o);
        if !includes.contains(&name) {
            includes.push(name);
        }
    }
    let fault = if cfg.allow_faults && rng.chance(1, 3) {
        Some(match rng.below(if cfg.allow_syntax_fault { 4 } else { 2 }) {
            0 => Fault::UndefinedClass,
            1 => Fault::MissingInclude,
            2 => Fault::Syntax,
            _ => Fault::EofSyntax,
        })
    } else {
        None
    };
    let version = vs.next();
    TextSpec {
        key: key.to_string(),
        version,
        fault_id: version,
        joined: rng.chance(1, 4),
        lead: rng.below(cfg.max_lead + 1),
        includes,
        uses,
        template_use,
        fault,
        eol: cfg.eol,
        alphabet: cfg.alphabet,
        inline_wide: cfg.alphabet != Alphabet::Ascii && rng.chance(1, 2),
        rich: rng.chance(1, 3),
        rich2: rng.chance(1, 3),
        dotted: rng.chance(1, 6),
        trail: rng.chance(1, 5),
        no_final_eol: rng.chance(1, 5),
        bom: rng.chance(1, 20),
        blank: match rng.below(60) {
            0 => 1,
            1 => 2,
            _ => 0,
        },
        pad_to: if rng.chance(1, 30) { [1024, 2048, 4096, 8192, 16384][rng.below(5)] } else { 0 },
        dup_class: rng.chance(1, 8),
        pp: cfg.eol == Eol::Lf && rng.chance(1, 3),
        bulk: if rng.chance(1, 40) { if rng.chance(1, 2) { rng.range(100, 300) } else { rng.range(480, 800) } } else { 0 },
        bulk_variant: false,
        probe_bm: Vec::new(),
        long_col: match rng.below(90) {
            0 => rng.range(260, 400),
            1 => rng.range(1_500, 6_000),
            2 => rng.range(65_540, 66_000),
            _ => 0,
        },
        extra_faults: if cfg.allow_faults && rng.chance(1, 40) {
            if rng.chance(1, 4) { rng.range(260, 400) } else { rng.range(10, 60) }
        } else {
            0
        },
        inc_in_defset: rng.chance(1, 6),
    }
}

/// An edited successor of `prev` (always a new version number).
pub fn edit_text(rng: &mut Rng, vs: &mut Versions, prev: &TextSpec, includable: &[&str], cfg: &GenCfg) -> TextSpec {
    let mut t = prev.clone();
    if t.bulk > 0 && rng.chance(1, 2) {
        // a same-length change in the middle of a large file, nothing else (a rename to an
        // identifier of equal length): the version marker deliberately stays
        t.bulk_variant = !t.bulk_variant;
        return t;
    }
    t.version = vs.next();
    match rng.below(16) {
        15 => t.blank = if t.blank == 0 { rng.range(1, 2) as u8 } else { 0 },
        14 => t.dup_class = !t.dup_class,
        13 => t.rich2 = !t.rich2,
        12 => t.pp = cfg.eol == Eol::Lf && !t.pp,
        11 => t.no_final_eol = !t.no_final_eol,
        10 => t.trail = !t.trail,
        9 => {
            if rng.chance(1, 2) {
                t.dotted = !t.dotted
            } else {
                t.inc_in_defset = !t.inc_in_defset
            }
        }
        7 => t.joined = !t.joined,
        8 => t.rich = !t.rich,
        0 if !includable.is_empty() || !cfg.cycle_keys.is_empty() => {
            // toggle an include (now and then one that closes a cycle)
            let o: String = if includable.is_empty() || (!cfg.cycle_keys.is_empty() && rng.chance(1, 3)) {
                rng.pick(&cfg.cycle_keys).clone()
            } else {
                rng.pick(includable).to_string()
            };
            let o = o.as_str();
            let name = include_name(o);
            if let Some(i) = t.includes.iter().position(|x| *x == name) {
                t.includes.remove(i);
            } else {
                t.includes.push(name);
                if rng.chance(1, 2) && !t.uses.contains(&o.to_string()) {
                    t.uses.push(o.to_string());
                }
            }
        }
        1 if cfg.allow_faults => {
            // add / fix a fault
            t.fault_id = t.version;
            t.fault = match t.fault {
                Some(_) => None,
                None => Some(if cfg.allow_syntax_fault && rng.chance(1, 3) {
                    if rng.chance(1, 2) { Fault::Syntax } else { Fault::EofSyntax }
                } else if rng.chance(1, 2) {
                    Fault::UndefinedClass
                } else {
                    Fault::MissingInclude
                }),
            };
        }
        2 => t.lead = rng.below(cfg.max_lead + 1),
        3 if !includable.is_empty() => {
            // retarget: replace the first include by another target at the same position
            let o = *rng.pick(includable);
            if t.includes.is_empty() {
                t.includes.push(include_name(o));
            } else {
                t.includes[0] = include_name(o);
            }
        }
        4 => {
            let o = includable.first().map(|s| s.to_string());
            if let Some(o) = o {
                if let Some(i) = t.uses.iter().position(|x| *x == o) {
                    t.uses.remove(i);
                } else {
                    t.uses.push(o);
                }
            }
        }
        5 => {
            t.template_use = match (&t.template_use, includable.first()) {
                (None, Some(o)) => Some(o.to_string()),
                _ => None,
            };
        }
        _ => {} // version bump only
    }
    t
}

pub fn sample_strategy(rng: &mut Rng) -> Strategy {
    match rng.below(10) {
        0..=2 => Strategy::Random,
        3..=6 => Strategy::Sticky { den: [2, 4, 8, 16][rng.below(4)] },
        _ => Strategy::Pct { depth: rng.range(1, 3) as u32, est_len: [100, 200, 400][rng.below(3)] },
    }
}

pub fn sample_knobs(rng: &mut Rng, concurrency: usize, include_dir: bool) -> Knobs {
    Knobs {
        concurrency,
        // in write calls (two per message: header, body)
        out_capacity: match rng.below(4) {
            0 => Some(2),
            1 => Some(16),
            _ => None,
        },
        max_chunks: [1, 2, 4][rng.below(3)],
        chunk_seed: rng.next_u64(),
        strategy: sample_strategy(rng),
        include_dir: if include_dir { Some(INC_DIR.to_string()) } else { None },
        vscode_uris: rng.chance(1, 2),
    }
}

/// Picks a request on an open document.
pub fn gen_request(rng: &mut Rng, open: &BTreeMap<String, String>, kinds: &[ReqKind]) -> Option<Op> {
    if open.is_empty() {
        return None;
    }
    let paths: Vec<&String> = open.keys().collect();
    let path = (*rng.pick(&paths)).clone();
    let text = &open[&path];
    let kind = *rng.pick(kinds);
    let offset = if kind.positional() {
        let names = name_offsets(text);
        if names.is_empty() {
            0
        } else {
            let (o, t) = rng.pick(&names).clone();
            // anywhere inside the identifier
            o + rng.below(t.len()) as u32
        }
    } else if kind == ReqKind::InlayHint && rng.chance(1, 2) {
        // a partial range that begins or ends at, inside or right behind an identifier
        let names = name_offsets(text);
        if names.is_empty() {
            0
        } else {
            let (o, t) = rng.pick(&names).clone();
            o + rng.below(t.len() + 1) as u32
        }
    } else {
        0
    };
    Some(Op::Request { kind, path, offset })
}

// ---------------------------------------------------------------------------- profiles

/// State the generators keep while building an op list.
struct Build {
    vs: Versions,
    specs: BTreeMap<String, TextSpec>,
    /// every version ever produced per file key (for "restore an earlier text")
    history: BTreeMap<String, Vec<TextSpec>>,
    disk: BTreeMap<String, FileState>,
    open: BTreeMap<String, String>,
    ops: Vec<Op>,
    request_ops: Vec<usize>,
}

impl Build {
    fn new() -> Self {
        Self {
            vs: Versions(0),
            specs: BTreeMap::new(),
            history: BTreeMap::new(),
            disk: BTreeMap::new(),
            open: BTreeMap::new(),
            ops: Vec::new(),
            request_ops: Vec::new(),
        }
    }
}

/// Keys in include order: a file may include only keys that come later (acyclic graphs).
fn includable<'a>(keys: &'a [&'a str], key: &str) -> Vec<&'a str> {
    let i = keys.iter().position(|k| *k == key).unwrap();
    keys[i + 1..].to_vec()
}

/// `live` (C08): bursts of opens/changes with every request kind, cancels, no-op
/// notifications and disk events at any time; contents are never judged.
pub fn gen_live(rng: &mut Rng, small_k: bool) -> Scenario {
    // now and then many documents (a size threshold may hide a bug from small workspaces)
    let many = rng.chance(1, 20);
    let n_files = if many { rng.range(6, 10) } else { rng.range(1, 3) };
    let all = ["a", "b", "c", "g", "h", "i", "j", "k", "l", "m", "d"];
    let use_inc_dir = rng.chance(1, 4);
    let mut keys: Vec<&str> = all[..n_files].to_vec();
    if use_inc_dir {
        keys.push("d");
    }
    let cfg = GenCfg { alphabet: Alphabet::Ascii, eol: Eol::Lf, allow_faults: true, allow_syntax_fault: true, max_lead: 2, cycle_keys: Vec::new() };
    let mut b = Build::new();
    // now and then a WIDE workspace: document `a` includes 70-130 small files (one
    // publication per file: batches far beyond any small queue bound)
    let wide = if rng.chance(1, 50) { rng.range(70, 130) } else { 0 };
    for k in &keys {
        let mut spec = gen_text(rng, &mut b.vs, k, &includable(&keys, k), &cfg);
        if *k == "a" {
            for i in 0..wide {
                spec.includes.push(format!("leaf/l{i}.td"));
            }
        }
        if rng.chance(5, 6) {
            b.disk.insert(path_of_key(k), FileState::Text(spec.render()));
        }
        b.specs.insert(k.to_string(), spec);
    }
    for i in 0..wide {
        b.disk.insert(format!("{DIR}/leaf/l{i}.td"), FileState::Text(format!("class L_{i};\n")));
    }
    let disk0 = b.disk.clone();
    let n_ops = if rng.chance(1, 150) {
        rng.range(80, 140)
    } else if many || rng.chance(1, 20) {
        rng.range(15, 40)
    } else {
        rng.range(3, 12)
    };
    let docs: Vec<&str> = keys.iter().filter(|k| **k != "d").copied().collect();
    let mut n_requests = 0usize;
    while b.ops.len() < n_ops {
        let roll = rng.below(100);
        if b.open.is_empty() || roll < 12 {
            let k = *rng.pick(&docs);
            let path = path_of_key(k);
            if b.open.contains_key(&path) {
                continue;
            }
            let text = next_spec(rng, &mut b, &keys, k, &cfg).render();
            b.open.insert(path.clone(), text.clone());
            b.ops.push(Op::Open { path, text });
        } else if roll < 40 {
            let paths: Vec<String> = b.open.keys().cloned().collect();
            let path = rng.pick(&paths).clone();
            let k = key_of_path(&path);
            let text = next_spec(rng, &mut b, &keys, &k, &cfg).render();
            b.open.insert(path.clone(), text.clone());
            b.ops.push(Op::Change { path, text });
        } else if roll < 80 {
            if let Some(op) = gen_request(rng, &b.open, &ALL_REQ_KINDS) {
                b.request_ops.push(b.ops.len());
                b.ops.push(op);
                n_requests += 1;
            }
        } else if roll < 86 && !b.request_ops.is_empty() {
            let op = *rng.pick(&b.request_ops);
            b.ops.push(Op::Cancel { op });
        } else if roll < 90 {
            let paths: Vec<String> = b.open.keys().cloned().collect();
            let path = rng.pick(&paths).clone();
            if rng.chance(1, 2) {
                b.ops.push(Op::Save { path });
            } else {
                // closed: a later Open of it is a re-open
                b.open.remove(&path);
                b.ops.push(Op::Close { path });
            }
        } else {
            // disk event on any file, at any time
            let k = *rng.pick(&keys);
            let path = path_of_key(k);
            match rng.below(3) {
                0 => {
                    let saved = b.specs[k].clone();
                    let text = next_spec(rng, &mut b, &keys, k, &cfg).render();
                    // what is on disk is not what the editor holds
                    b.specs.insert(k.to_string(), saved);
                    b.ops.push(Op::DiskWrite { path, text });
                }
                1 => b.ops.push(Op::DiskRemove { path }),
                _ => b.ops.push(Op::DiskUnreadable { path }),
            }
        }
    }
    // The concurrency limit: normally comfortably above the number of requests a scenario can
    // have in flight (see the known finding about async-lsp's main loop at the limit);
    // `small_k` runs exercise the limit itself.
    let concurrency = if small_k { rng.range(1, 2) } else { n_requests + 2 + rng.below(3) };
    Scenario { profile: if small_k { "live-klimit".into() } else { "live".into() }, knobs: sample_knobs(rng, concurrency, use_inc_dir), disk0, ops: b.ops }
}

fn key_of_path(path: &str) -> String {
    path.rsplit('/').next().unwrap_or(path).trim_end_matches(".td").to_string()
}

/// The next text of file `k`: usually an edited successor with a new unique marker, but an
/// editor also re-sends the very same text (format-on-save, a no-op change) and goes back to
/// an earlier text (undo, `git checkout`), so both are produced now and then.
fn next_spec(rng: &mut Rng, b: &mut Build, keys: &[&str], k: &str, cfg: &GenCfg) -> TextSpec {
    let prev = b.specs[k].clone();
    let roll = rng.below(16);
    let spec = if roll == 0 {
        prev.clone() // byte-identical resend
    } else if roll == 1 || roll == 2 {
        match b.history.get(k) {
            Some(h) if !h.is_empty() => rng.pick(h).clone(), // an earlier version, restored
            _ => edit_text(rng, &mut b.vs, &prev, &includable(keys, k), cfg),
        }
    } else {
        edit_text(rng, &mut b.vs, &prev, &includable(keys, k), cfg)
    };
    let mut spec = spec;
    spec.probe_bm = spec.includes.iter().map(|i| i.trim_end_matches(".td").to_string()).filter(|u| b.specs.get(u).map(|s| s.bulk > 0).unwrap_or(false)).collect();
    b.history.entry(k.to_string()).or_default().push(spec.clone());
    b.specs.insert(k.to_string(), spec.clone());
    spec
}

/// Emits a notification for document `k` with a new version of its text. `save`: the editor
/// also writes the text to disk first (disk == editor).
#[allow(clippy::too_many_arguments)]
fn touch(rng: &mut Rng, b: &mut Build, keys: &[&str], k: &str, cfg: &GenCfg, save: bool, _fresh: bool) {
    let spec = next_spec(rng, b, keys, k, cfg);
    let text = spec.render();
    let path = path_of_key(k);
    if save {
        b.disk.insert(path.clone(), FileState::Text(text.clone()));
        b.ops.push(Op::DiskWrite { path: path.clone(), text: text.clone() });
    }
    // mostly didOpen for a document that is not open and didChange for one that is, but the
    // other way round is legal too (a change for a document the server has not been told
    // about, a second didOpen for an open one), and so are no-op notifications in between
    let is_open = b.open.contains_key(&path);
    let unusual = rng.chance(1, 10);
    if is_open && rng.chance(1, 12) {
        // one notification with two full-text changes: the second one is the document's text
        let first = b.open[&path].replace("class", "class ");
        b.ops.push(Op::Change2 { path: path.clone(), first, text: text.clone() });
    } else if is_open != unusual {
        b.ops.push(Op::Change { path: path.clone(), text: text.clone() });
    } else {
        b.ops.push(Op::Open { path: path.clone(), text: text.clone() });
    }
    b.open.insert(path.clone(), text);
    match rng.below(12) {
        0 => b.ops.push(Op::EmptyChange { path }),
        1 => b.ops.push(Op::Save { path }),
        _ => {}
    }
}

/// The editor closes `k` (and may re-open it later: document versions restart at 1 then).
fn close_doc(b: &mut Build, k: &str) {
    let path = path_of_key(k);
    if b.open.remove(&path).is_some() {
        b.ops.push(Op::Close { path });
    }
}

fn requests_burst(rng: &mut Rng, b: &mut Build, n: usize, kinds: &[ReqKind], only_paths: Option<&[String]>) {
    for _ in 0..n {
        let open: BTreeMap<String, String> = match only_paths {
            Some(ps) => b.open.iter().filter(|(p, _)| ps.contains(p)).map(|(p, t)| (p.clone(), t.clone())).collect(),
            None => b.open.clone(),
        };
        if let Some(op) = gen_request(rng, &open, kinds) {
            b.request_ops.push(b.ops.len());
            b.ops.push(op);
        }
    }
}

fn count_requests(ops: &[Op]) -> usize {
    ops.iter().filter(|o| matches!(o, Op::Request { .. })).count()
}

/// `converge` (C11, with the C09 monitor): histories of opens/changes over 2-3 documents whose
/// texts gain and lose faults and includes, root switches, external writes to never-opened
/// files at Sync points (which may also be missing at first, disappear and come back); in two
/// thirds of the sessions the editor saves on every change, so disk == editor.
pub fn gen_converge(rng: &mut Rng) -> Scenario {
    let use_inc_dir = rng.chance(1, 4);
    let many = rng.chance(1, 20);
    let n_docs = if many { rng.range(5, 9) } else { rng.range(2, 3) };
    let all = ["a", "b", "c", "g", "h", "i", "j", "k", "l"];
    let mut keys: Vec<&str> = all[..n_docs].to_vec();
    // "e": a file that is never opened in the editor, only included
    keys.push("e");
    if use_inc_dir {
        keys.push("d");
    }
    let docs: Vec<&str> = all[..n_docs].to_vec();
    let cycle_keys: Vec<String> = if rng.chance(1, 3) { docs.iter().map(|k| k.to_string()).collect() } else { Vec::new() };
    let cfg = GenCfg { alphabet: Alphabet::Ascii, eol: Eol::Lf, allow_faults: true, allow_syntax_fault: true, max_lead: 3, cycle_keys };
    let mut b = Build::new();
    for k in &keys {
        let spec = gen_text(rng, &mut b.vs, k, &includable(&keys, k), &cfg);
        // now and then the never-opened include target does not exist (yet): includes of it
        // are "not found" until something outside the editor creates it at a quiescent point
        if *k != "e" || !rng.chance(1, 5) {
            b.disk.insert(path_of_key(k), FileState::Text(spec.render()));
        }
        b.specs.insert(k.to_string(), spec);
    }
    let disk0 = b.disk.clone();
    let paced = rng.chance(1, 3);
    // in a third of the sessions the editor does not save every change: a close then discards
    // the buffer, and the file on disk (an older text) counts again
    let unsaved = rng.chance(1, 3);
    let n_notifs = if many { rng.range(8, 20) } else { rng.range(2, 7) };
    for i in 0..n_notifs {
        if !b.open.is_empty() && rng.chance(1, 8) {
            let paths: Vec<String> = b.open.keys().cloned().collect();
            let picked: String = rng.pick(&paths).clone();
            close_doc(&mut b, &key_of_path(&picked));
        }
        let k = *rng.pick(&docs);
        let save = !unsaved || rng.chance(1, 3);
        touch(rng, &mut b, &keys, k, &cfg, save, false);
        if rng.chance(1, 2) {
            let n = rng.range(1, 3);
            requests_burst(rng, &mut b, n, &ALL_REQ_KINDS, None);
        }
        if paced || rng.chance(1, 4) {
            b.ops.push(Op::Sync);
            // at a quiescent point, something outside the editor may rewrite a file that is not
            // open; the next notification makes the server re-read it
            if i + 1 < n_notifs && rng.chance(1, 3) {
                let k = if use_inc_dir && rng.chance(1, 2) { "d" } else { "e" };
                if b.disk.contains_key(&path_of_key(k)) && rng.chance(1, 4) {
                    // the file disappears; a later write at a quiescent point re-creates it
                    // (fault, then recovery: nothing remembered about the miss may survive)
                    b.disk.remove(&path_of_key(k));
                    b.ops.push(Op::DiskRemove { path: path_of_key(k) });
                } else {
                    let spec = edit_text(rng, &mut b.vs, &b.specs[k].clone(), &includable(&keys, k), &cfg);
                    let text = spec.render();
                    b.specs.insert(k.to_string(), spec);
                    b.disk.insert(path_of_key(k), FileState::Text(text.clone()));
                    b.ops.push(Op::DiskWrite { path: path_of_key(k), text });
                }
            }
        }
    }
    let concurrency = count_requests(&b.ops) + 2 + rng.below(3);
    Scenario { profile: "converge".into(), knobs: sample_knobs(rng, concurrency, use_inc_dir), disk0, ops: b.ops }
}

/// `overlay` (C12): a root and files it includes, where the editor's text of every opened
/// document differs from the text on disk.
pub fn gen_overlay(rng: &mut Rng, removed_variant: bool) -> Scenario {
    let with_c = rng.chance(1, 2);
    let keys: Vec<&str> = if rng.chance(1, 50) {
        // many open documents at once (bounded caches evict only then)
        vec!["a", "b", "c", "g", "h", "i", "j", "k", "l", "m", "n", "o", "p", "q", "r", "s", "t", "u", "v", "w"]
    } else if with_c {
        vec!["a", "b", "c"]
    } else {
        vec!["a", "b"]
    };
    let many = keys.len() > 3;
    let cycle_keys: Vec<String> = if rng.chance(1, 3) { keys.iter().map(|k| k.to_string()).collect() } else { Vec::new() };
    let cfg = GenCfg { alphabet: Alphabet::Ascii, eol: Eol::Lf, allow_faults: true, allow_syntax_fault: false, max_lead: 2, cycle_keys };
    let mut b = Build::new();
    for k in &keys {
        let mut spec = gen_text(rng, &mut b.vs, k, &includable(&keys, k), &cfg);
        // the chain a -> b (-> c) always exists on disk
        let next = includable(&keys, k);
        if let Some(n) = next.first() {
            if !spec.includes.contains(&include_name(n)) {
                spec.includes.insert(0, include_name(n));
            }
            if !spec.uses.contains(&n.to_string()) {
                spec.uses.push(n.to_string());
            }
        }
        // now and then a document is new: it exists in the editor only, not (yet) on disk
        if *k == "a" || !rng.chance(1, 4) {
            b.disk.insert(path_of_key(k), FileState::Text(spec.render()));
        }
        b.specs.insert(k.to_string(), spec);
    }
    let disk0 = b.disk.clone();
    let paced = rng.chance(1, 2);
    let n_steps = if many { rng.range(22, 32) } else { rng.range(2, 6) };
    let probe_kinds = [ReqKind::DocumentSymbol, ReqKind::Definition, ReqKind::References, ReqKind::Hover, ReqKind::DocumentLink];
    for _ in 0..n_steps {
        let roll = rng.below(12);
        if roll >= 10 && !b.open.is_empty() {
            // close a document and, usually right away, open it again (versions restart)
            let paths: Vec<String> = b.open.keys().cloned().collect();
            let picked: String = rng.pick(&paths).clone();
            let k = key_of_path(&picked);
            close_doc(&mut b, &k);
            if rng.chance(1, 3) {
                // questions between the close and the next edit
                let n = rng.range(1, 3);
                requests_burst(rng, &mut b, n, &probe_kinds, None);
                b.ops.push(Op::Sync);
            }
            if rng.chance(2, 3) {
                touch(rng, &mut b, &keys, &k, &cfg, false, false);
            }
            let k2 = *rng.pick(&keys);
            touch(rng, &mut b, &keys, k2, &cfg, false, false);
        } else if roll < 8 || b.open.is_empty() {
            let k = *rng.pick(&keys);
            // no save: the buffer and the disk now differ (every version has its own marker)
            touch(rng, &mut b, &keys, k, &cfg, false, false);
        } else {
            // external change on disk, at a quiescent point
            b.ops.push(Op::Sync);
            let k = *rng.pick(&keys);
            let path = path_of_key(k);
            if removed_variant && b.open.contains_key(&path) {
                b.disk.remove(&path);
                b.ops.push(Op::DiskRemove { path });
            } else {
                let spec = edit_text(rng, &mut b.vs, &b.specs[k].clone(), &includable(&keys, k), &cfg);
                // the editor's idea of the file (b.specs) is only replaced if it is not open
                let text = spec.render();
                if !b.open.contains_key(&path) {
                    b.specs.insert(k.to_string(), spec);
                }
                b.disk.insert(path.clone(), FileState::Text(text.clone()));
                b.ops.push(Op::DiskWrite { path, text });
            }
            let k = *rng.pick(&keys);
            touch(rng, &mut b, &keys, k, &cfg, false, false);
        }
        // probes on every open document
        let mut paths: Vec<String> = b.open.keys().cloned().collect();
        while paths.len() > 4 {
            // with many open documents: a sample of them
            let i = rng.below(paths.len());
            paths.remove(i);
        }
        for p in &paths {
            b.request_ops.push(b.ops.len());
            b.ops.push(Op::Request { kind: ReqKind::DocumentSymbol, path: p.clone(), offset: 0 });
        }
        let n = rng.range(1, 4);
        requests_burst(rng, &mut b, n, &probe_kinds, None);
        if paced {
            b.ops.push(Op::Sync);
        }
    }
    let concurrency = count_requests(&b.ops) + 2 + rng.below(3);
    let profile = if removed_variant { "overlay-removed" } else { "overlay" };
    Scenario { profile: profile.into(), knobs: sample_knobs(rng, concurrency, false), disk0, ops: b.ops }
}

/// `overlay-symlink` (C12, one environment fault more): an `overlay` session in which document
/// `a` reaches `b` through a symbolic link `lb.td -> b.td` lying next to them. The document the
/// include names is `b`: if `b` is open, its buffer counts.
pub fn gen_overlay_symlink(rng: &mut Rng) -> Scenario {
    let mut sc = gen_overlay(rng, false);
    let a = path_of_key("a");
    let retarget = |t: &str| t.replace("b.td\"", "lb.td\"");
    if let Some(FileState::Text(t)) = sc.disk0.get(&a).cloned() {
        sc.disk0.insert(a.clone(), FileState::Text(retarget(&t)));
    }
    for op in sc.ops.iter_mut() {
        match op {
            Op::Open { path, text } | Op::Change { path, text } | Op::DiskWrite { path, text } if *path == a => *text = retarget(text),
            Op::Change2 { path, first, text } if *path == a => {
                *first = retarget(first);
                *text = retarget(text);
            }
            _ => {}
        }
    }
    sc.disk0.insert(format!("{DIR}/lb.td"), FileState::Link(path_of_key("b")));
    sc.profile = "overlay-symlink".into();
    sc
}

/// `wire` (C09): files with different line structure, every range-bearing message kind,
/// knobs for non-ASCII text and line endings. Positions are only ever sent for ASCII documents
/// (what the server does with an *incoming* position is C10's subject); the ranges that come
/// back may lie in non-ASCII files.
pub fn gen_wire(rng: &mut Rng) -> Scenario {
    let alphabet = match rng.below(4) {
        0 | 1 => Alphabet::Ascii,
        2 => Alphabet::Bmp,
        _ => Alphabet::Astral,
    };
    let eol = match rng.below(4) {
        0 | 1 => Eol::Lf,
        2 => Eol::CrLf,
        _ => Eol::Cr,
    };
    let keys: Vec<&str> = if rng.chance(1, 2) { vec!["a", "b", "c"] } else { vec!["a", "b"] };
    let cyclic = rng.chance(1, 4);
    let cfg_of = |k: &str| GenCfg {
        // the document requests are positioned in stays ASCII
        alphabet: if k == "a" { Alphabet::Ascii } else { alphabet },
        eol,
        allow_faults: true,
        allow_syntax_fault: false,
        max_lead: 5,
        cycle_keys: if cyclic { keys.iter().map(|k| k.to_string()).collect() } else { Vec::new() },
    };
    let mut b = Build::new();
    for k in &keys {
        let mut spec = gen_text(rng, &mut b.vs, k, &includable(&keys, k), &cfg_of(k));
        let next = includable(&keys, k);
        if let Some(n) = next.first() {
            if !spec.includes.contains(&include_name(n)) {
                spec.includes.insert(0, include_name(n));
            }
            if !spec.uses.contains(&n.to_string()) {
                spec.uses.push(n.to_string());
            }
            if spec.template_use.is_none() {
                spec.template_use = Some(n.to_string());
            }
        }
        b.disk.insert(path_of_key(k), FileState::Text(spec.render()));
        b.specs.insert(k.to_string(), spec);
    }
    let disk0 = b.disk.clone();
    let n_steps = rng.range(1, 4);
    // burst variant: no quiescent points and no disk traffic at all, so a task of revision N
    // is routinely still running when revision N+1 arrives (and no state is racy)
    let burst = rng.chance(1, 2);
    let ascii_docs = vec![path_of_key("a")];
    let free_kinds = [ReqKind::DocumentSymbol, ReqKind::DocumentLink, ReqKind::FoldingRange];
    let pos_kinds = [ReqKind::Definition, ReqKind::References, ReqKind::Definition, ReqKind::References, ReqKind::InlayHint, ReqKind::DocumentSymbol, ReqKind::FoldingRange, ReqKind::DocumentLink];
    for step in 0..n_steps {
        let k = if step == 0 || rng.chance(2, 3) { "a" } else { *rng.pick(&keys) };
        let cfg = cfg_of(k);
        touch(rng, &mut b, &keys, k, &cfg, !burst, false);
        if !burst {
            b.ops.push(Op::Sync);
        }
        let n = if burst { rng.range(1, 3) } else { rng.range(3, 8) };
        requests_burst(rng, &mut b, n, &pos_kinds, Some(&ascii_docs));
        let others: Vec<String> = b.open.keys().filter(|p| !ascii_docs.contains(p)).cloned().collect();
        if !others.is_empty() {
            let n = rng.range(1, 3);
            requests_burst(rng, &mut b, n, &free_kinds, Some(&others));
        }
        if burst {
            // a second edit of the same document right behind, with a different line structure
            if rng.chance(2, 3) {
                let mut spec = b.specs[k].clone();
                spec.version = b.vs.next();
                spec.lead = (spec.lead + rng.range(1, 4)) % 7;
                b.specs.insert(k.to_string(), spec.clone());
                let text = spec.render();
                let path = path_of_key(k);
                b.open.insert(path.clone(), text.clone());
                b.ops.push(Op::Change { path, text });
            }
        } else {
            b.ops.push(Op::Sync);
        }
    }
    let concurrency = count_requests(&b.ops) + 2;
    let mut knobs = sample_knobs(rng, concurrency, false);
    if !burst {
        knobs.strategy = Strategy::Sticky { den: 8 };
    }
    Scenario { profile: if burst { "wire-burst".into() } else { "wire".into() }, knobs, disk0, ops: b.ops }
}

pub fn key_for(path: &str) -> String {
    key_of_path(path)
}


/// `hist-live` (the server-layer part of C07): an edit/disk history played through the real
/// server, paced (quiescent after every step, so no state is racy): documents are opened,
/// changed, closed and re-opened; files that are not open are rewritten, removed, made
/// unreadable and re-created on disk between the steps; a file next to the includer may start
/// or stop shadowing its INCLUDE_DIR namesake. Every response and publication must equal a
/// fresh analysis of the state it belongs to.
pub fn gen_hist_live(rng: &mut Rng) -> Scenario {
    let use_inc_dir = rng.chance(1, 2);
    let n_docs = rng.range(2, 3);
    let all = ["a", "b", "c"];
    let mut keys: Vec<&str> = all[..n_docs].to_vec();
    keys.push("e");
    if use_inc_dir {
        keys.push("d");
    }
    let docs: Vec<&str> = all[..n_docs].to_vec();
    let cycle_keys: Vec<String> = if rng.chance(1, 3) { docs.iter().map(|k| k.to_string()).collect() } else { Vec::new() };
    let cfg = GenCfg { alphabet: Alphabet::Ascii, eol: Eol::Lf, allow_faults: true, allow_syntax_fault: true, max_lead: 3, cycle_keys };
    let mut b = Build::new();
    for k in &keys {
        let spec = gen_text(rng, &mut b.vs, k, &includable(&keys, k), &cfg);
        if *k != "e" || rng.chance(2, 3) {
            b.disk.insert(path_of_key(k), FileState::Text(spec.render()));
        }
        b.history.entry(k.to_string()).or_default().push(spec.clone());
        b.specs.insert(k.to_string(), spec);
    }
    let disk0 = b.disk.clone();
    let n_steps = rng.range(2, 7);
    let kinds = [ReqKind::DocumentSymbol, ReqKind::Definition, ReqKind::References, ReqKind::Hover, ReqKind::DocumentLink, ReqKind::InlayHint, ReqKind::FoldingRange, ReqKind::Completion];
    for step in 0..n_steps {
        if step > 0 && rng.chance(1, 2) {
            // something outside the editor changes a file that is not open
            let cands: Vec<&str> = keys.iter().copied().filter(|k| !b.open.contains_key(&path_of_key(k))).collect();
            if !cands.is_empty() {
                let k = *rng.pick(&cands);
                let path = path_of_key(k);
                match rng.below(6) {
                    0 => {
                        b.disk.remove(&path);
                        b.ops.push(Op::DiskRemove { path });
                    }
                    1 => {
                        b.disk.insert(path.clone(), FileState::Unreadable);
                        b.ops.push(Op::DiskUnreadable { path });
                    }
                    2 if use_inc_dir => {
                        // a file next to the includers starts / stops shadowing /w/inc/d.td
                        let shadow = format!("{DIR}/d.td");
                        if b.disk.contains_key(&shadow) {
                            b.disk.remove(&shadow);
                            b.ops.push(Op::DiskRemove { path: shadow });
                        } else {
                            let text = format!("class V_{:04};\nclass K_d {{ int x = 1; }}\nclass T_d<int p> {{ int q = p; }}\n", b.vs.next());
                            b.disk.insert(shadow.clone(), FileState::Text(text.clone()));
                            b.ops.push(Op::DiskWrite { path: shadow, text });
                        }
                    }
                    _ => {
                        let saved = b.specs[k].clone();
                        let text = next_spec(rng, &mut b, &keys, k, &cfg).render();
                        let _ = saved;
                        b.disk.insert(path.clone(), FileState::Text(text.clone()));
                        b.ops.push(Op::DiskWrite { path, text });
                    }
                }
            }
        }
        if !b.open.is_empty() && rng.chance(1, 6) {
            let paths: Vec<String> = b.open.keys().cloned().collect();
            let picked: String = rng.pick(&paths).clone();
            close_doc(&mut b, &key_of_path(&picked));
            if rng.chance(1, 2) {
                // questions between the close and the next edit
                let n = rng.range(1, 4);
                requests_burst(rng, &mut b, n, &kinds, None);
                b.ops.push(Op::Sync);
            }
        }
        let k = *rng.pick(&docs);
        let save = rng.chance(1, 2);
        touch(rng, &mut b, &keys, k, &cfg, save, false);
        let n = rng.range(2, 5);
        requests_burst(rng, &mut b, n, &kinds, None);
        b.ops.push(Op::Sync);
    }
    let concurrency = count_requests(&b.ops) + 2;
    Scenario { profile: "hist-live".into(), knobs: sample_knobs(rng, concurrency, use_inc_dir), disk0, ops: b.ops }
}
