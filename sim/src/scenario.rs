//! A scenario is an explicit value: everything the client will do, every text, every disk
//! event, every knob. It is generated from a seed *before* the execution starts, so that it
//! can be written to a replay file and shrunk.

use std::collections::BTreeMap;

use serde::{Deserialize, Serialize};

use crate::sched::Strategy;
use crate::world::FileState;

#[derive(Clone, Copy, Debug, PartialEq, Eq, Hash, PartialOrd, Ord, Serialize, Deserialize)]
pub enum ReqKind {
    DocumentSymbol,
    Definition,
    References,
    Hover,
    InlayHint,
    Completion,
    DocumentLink,
    FoldingRange,
}

pub const ALL_REQ_KINDS: [ReqKind; 8] = [
    ReqKind::DocumentSymbol,
    ReqKind::Definition,
    ReqKind::References,
    ReqKind::Hover,
    ReqKind::InlayHint,
    ReqKind::Completion,
    ReqKind::DocumentLink,
    ReqKind::FoldingRange,
];

impl ReqKind {
    pub fn method(self) -> &'static str {
        match self {
            ReqKind::DocumentSymbol => "textDocument/documentSymbol",
            ReqKind::Definition => "textDocument/definition",
            ReqKind::References => "textDocument/references",
            ReqKind::Hover => "textDocument/hover",
            ReqKind::InlayHint => "textDocument/inlayHint",
            ReqKind::Completion => "textDocument/completion",
            ReqKind::DocumentLink => "textDocument/documentLink",
            ReqKind::FoldingRange => "textDocument/foldingRange",
        }
    }

    pub fn positional(self) -> bool {
        matches!(self, ReqKind::Definition | ReqKind::References | ReqKind::Hover | ReqKind::Completion)
    }
}

#[derive(Clone, Debug, PartialEq, Eq, Serialize, Deserialize)]
pub enum Op {
    /// textDocument/didOpen with the full text
    Open { path: String, text: String },
    /// textDocument/didChange (full sync)
    Change { path: String, text: String },
    /// one of the eight request kinds; `offset` is a byte offset into the text the client
    /// believes the document has (converted to an LSP position by the independent mapper);
    /// for InlayHint the offset selects the range: 0 the whole document, an even offset the
    /// part before it, an odd offset the part behind it
    Request { kind: ReqKind, path: String, offset: u32 },
    /// $/cancelRequest for the request issued by op number `op`
    Cancel { op: usize },
    /// no-op notifications a real editor sends
    Save { path: String },
    /// textDocument/didChange with an empty contentChanges array (legal; changes nothing)
    EmptyChange { path: String },
    /// textDocument/didChange carrying TWO full-text changes: they apply in order, so the
    /// document ends up with `text` (the second one); `first` is only passed through
    Change2 { path: String, first: String, text: String },
    Close { path: String },
    DiskWrite { path: String, text: String },
    DiskRemove { path: String },
    DiskUnreadable { path: String },
    /// wait until the server is quiescent
    Sync,
}

impl Op {
    pub fn kind_name(&self) -> &'static str {
        match self {
            Op::Open { .. } => "Open",
            Op::Change { .. } => "Change",
            Op::Request { kind, .. } => match kind {
                ReqKind::DocumentSymbol => "Req:documentSymbol",
                ReqKind::Definition => "Req:definition",
                ReqKind::References => "Req:references",
                ReqKind::Hover => "Req:hover",
                ReqKind::InlayHint => "Req:inlayHint",
                ReqKind::Completion => "Req:completion",
                ReqKind::DocumentLink => "Req:documentLink",
                ReqKind::FoldingRange => "Req:foldingRange",
            },
            Op::Cancel { .. } => "Cancel",
            Op::Save { .. } => "Save",
            Op::EmptyChange { .. } => "EmptyChange",
            Op::Change2 { .. } => "Change2",
            Op::Close { .. } => "Close",
            Op::DiskWrite { .. } => "DiskWrite",
            Op::DiskRemove { .. } => "DiskRemove",
            Op::DiskUnreadable { .. } => "DiskUnreadable",
            Op::Sync => "Sync",
        }
    }

    pub fn is_disk(&self) -> bool {
        matches!(self, Op::DiskWrite { .. } | Op::DiskRemove { .. } | Op::DiskUnreadable { .. })
    }
}

#[derive(Clone, Debug, PartialEq, Eq, Serialize, Deserialize)]
pub struct Knobs {
    /// limit of the server's ConcurrencyLayer (in-flight requests)
    pub concurrency: usize,
    /// server stdout pipe capacity in write calls, two per message (None = unbounded)
    pub out_capacity: Option<usize>,
    /// each frame the client writes is cut into at most this many chunks
    pub max_chunks: usize,
    /// seed for the cut points (kept separate so that a scenario stays an explicit value)
    pub chunk_seed: u64,
    pub strategy: Strategy,
    /// value of the INCLUDE_DIR environment variable, if set
    pub include_dir: Option<String>,
    /// the client spells URIs like VS Code (percent-encodes `+` and friends) instead of like
    /// the url crate (leaves them literal); both are valid spellings of the same path
    #[serde(default)]
    pub vscode_uris: bool,
}

#[derive(Clone, Debug, PartialEq, Eq, Serialize, Deserialize)]
pub struct Scenario {
    pub profile: String,
    pub knobs: Knobs,
    pub disk0: BTreeMap<String, FileState>,
    pub ops: Vec<Op>,
}

impl Scenario {
    /// Coarse shape used for the "distinct" measure: op kinds, which document each touches,
    /// and the knobs that change the server's behaviour.
    pub fn shape_hash(&self) -> u64 {
        let mut h = crate::rng::StableHasher::new();
        h.str(&self.profile);
        h.u64(self.knobs.concurrency as u64);
        h.u64(self.knobs.out_capacity.map(|c| c as u64 + 1).unwrap_or(0));
        h.u64(self.knobs.include_dir.is_some() as u64);
        h.u64(self.knobs.vscode_uris as u64);
        for op in &self.ops {
            h.str(op.kind_name());
            match op {
                Op::Open { path, .. }
                | Op::Change { path, .. }
                | Op::Request { path, .. }
                | Op::Save { path }
                | Op::EmptyChange { path }
                | Op::Change2 { path, .. }
                | Op::Close { path }
                | Op::DiskWrite { path, .. }
                | Op::DiskRemove { path }
                | Op::DiskUnreadable { path } => h.str(path),
                Op::Cancel { op } => h.u64(*op as u64),
                Op::Sync => {}
            }
        }
        h.finish()
    }
}
