//! ide-layer checks (no threads): C16 (include graphs at the disk seam) and C07 (edit
//! histories against a fresh host). The seam is the repository's own `FileSystem` trait.

use std::collections::{BTreeMap, BTreeSet, VecDeque};
use std::path::PathBuf;
use std::sync::Arc;

use ide::analysis::AnalysisHost;
use serde::{Deserialize, Serialize};

use crate::gen::{self, name_offsets, Alphabet, Eol, GenCfg, TextSpec, Versions};
use crate::model::{MemFs, RefHost, MEMFS_BUDGET_MSG};
use crate::oracle::Violation;
use crate::rng::{Rng, StableHasher};
use crate::scenario::{ReqKind, ALL_REQ_KINDS};

// =============================================================================== C16

#[derive(Clone, Debug, PartialEq, Eq, Serialize, Deserialize)]
pub enum Target {
    /// an existing file of the graph (index)
    File(usize),
    /// no such file anywhere
    Missing(u32),
    /// exists but cannot be read
    Unreadable(u32),
    /// found only through INCLUDE_DIR (index into `inc_files`)
    IncDir(usize),
}

#[derive(Clone, Debug, PartialEq, Eq, Serialize, Deserialize)]
pub struct Edge {
    pub target: Target,
    /// the include statement sits inside `let ... in { }` instead of at top level
    pub nested: bool,
}

#[derive(Clone, Debug, PartialEq, Eq, Serialize, Deserialize)]
pub struct Graph {
    /// edges[i]: include statements of file i, in source order
    pub edges: Vec<Vec<Edge>>,
    /// files that live in the INCLUDE_DIR directory (leafs)
    pub inc_files: usize,
    pub include_dir_set: bool,
    pub root: usize,
}

fn gpath(i: usize) -> String {
    format!("/w/f{i}.td")
}
fn ipath(i: usize) -> String {
    format!("/w/inc/g{i}.td")
}

impl Graph {
    fn include_name(&self, t: &Target) -> String {
        match t {
            Target::File(i) => format!("f{i}.td"),
            Target::Missing(n) => format!("missing{n}.td"),
            Target::Unreadable(n) => format!("unreadable{n}.td"),
            Target::IncDir(i) => format!("g{i}.td"),
        }
    }

    /// (text, byte range of each include statement, byte range of its path literal)
    pub fn render(&self, i: usize) -> (String, Vec<(usize, usize, usize, usize)>) {
        let mut s = String::new();
        let mut spans = Vec::new();
        for e in &self.edges[i] {
            let name = self.include_name(&e.target);
            if e.nested {
                s.push_str("let z = 1 in { ");
            }
            let st = s.len();
            s.push_str("include ");
            let lit = s.len();
            s.push_str(&format!("\"{name}\""));
            let en = s.len();
            spans.push((st, en, lit, en));
            if e.nested {
                s.push_str(" }");
            }
            s.push('\n');
        }
        s.push_str(&format!("class C_{i};\n"));
        (s, spans)
    }

    pub fn files(&self) -> BTreeMap<PathBuf, String> {
        let mut m = BTreeMap::new();
        for i in 0..self.edges.len() {
            m.insert(PathBuf::from(gpath(i)), self.render(i).0);
        }
        for i in 0..self.inc_files {
            m.insert(PathBuf::from(ipath(i)), format!("class G_{i};\n"));
        }
        m
    }

    /// Independent model: where an include statement resolves to.
    fn resolve(&self, t: &Target) -> Option<String> {
        match t {
            Target::File(i) => Some(gpath(*i)),
            Target::IncDir(i) if self.include_dir_set => Some(ipath(*i)),
            _ => None,
        }
    }

    /// Independent model: reachable set by BFS with a visited set over resolvable edges.
    pub fn reachable(&self) -> BTreeSet<String> {
        let mut seen = BTreeSet::new();
        let mut q = VecDeque::new();
        seen.insert(gpath(self.root));
        q.push_back(self.root);
        while let Some(i) = q.pop_front() {
            for e in &self.edges[i] {
                if let Some(p) = self.resolve(&e.target) {
                    if seen.insert(p) {
                        if let Target::File(j) = e.target {
                            q.push_back(j);
                        }
                    }
                }
            }
        }
        seen
    }

    pub fn has_cycle(&self) -> bool {
        // DFS from root
        fn dfs(g: &Graph, i: usize, stack: &mut Vec<usize>, done: &mut BTreeSet<usize>) -> bool {
            if stack.contains(&i) {
                return true;
            }
            if done.contains(&i) {
                return false;
            }
            stack.push(i);
            for e in &g.edges[i] {
                if let Target::File(j) = e.target {
                    if dfs(g, j, stack, done) {
                        return true;
                    }
                }
            }
            stack.pop();
            done.insert(i);
            false
        }
        dfs(self, self.root, &mut Vec::new(), &mut BTreeSet::new())
    }

    /// some file is reachable along two different paths (or included twice)
    pub fn has_diamond(&self) -> bool {
        let mut indeg: BTreeMap<usize, usize> = BTreeMap::new();
        let reach = self.reachable();
        for i in 0..self.edges.len() {
            if !reach.contains(&gpath(i)) {
                continue;
            }
            for e in &self.edges[i] {
                if let Target::File(j) = e.target {
                    *indeg.entry(j).or_default() += 1;
                }
            }
        }
        indeg.values().any(|d| *d > 1)
    }

    pub fn shape_hash(&self) -> u64 {
        let mut h = StableHasher::new();
        h.u64(self.root as u64);
        h.u64(self.include_dir_set as u64);
        for es in &self.edges {
            h.u64(0xEE);
            for e in es {
                h.u64(e.nested as u64);
                match &e.target {
                    Target::File(i) => {
                        h.u64(1);
                        h.u64(*i as u64)
                    }
                    Target::Missing(_) => h.u64(2),
                    Target::Unreadable(_) => h.u64(3),
                    Target::IncDir(i) => {
                        h.u64(4);
                        h.u64(*i as u64)
                    }
                }
            }
        }
        h.finish()
    }
}

pub fn gen_graph(rng: &mut Rng, allow_nested: bool) -> Graph {
    let n = match rng.below(10) {
        0 => 1,
        1..=3 => 2,
        4..=6 => 3,
        7 | 8 => 4,
        _ => rng.range(5, 6),
    };
    let inc_files = rng.below(3);
    let include_dir_set = rng.chance(1, 2);
    let mut missing = 0u32;
    let nested_graph = allow_nested && rng.chance(1, 4);
    let mut edges = Vec::new();
    for _ in 0..n {
        let deg = [0, 1, 1, 2, 2, 3][rng.below(6)];
        let mut es = Vec::new();
        for _ in 0..deg {
            let target = match rng.below(12) {
                0 => {
                    missing += 1;
                    Target::Missing(missing)
                }
                1 => {
                    missing += 1;
                    Target::Unreadable(missing)
                }
                2 if inc_files > 0 => Target::IncDir(rng.below(inc_files)),
                _ => Target::File(rng.below(n)),
            };
            es.push(Edge { target, nested: nested_graph && rng.chance(1, 2) });
        }
        edges.push(es);
    }
    Graph { edges, inc_files, include_dir_set, root: 0 }
}

#[derive(Default, Clone, Debug)]
pub struct C16Stats {
    pub cycles: u64,
    pub self_loops: u64,
    pub diamonds: u64,
    pub missing_targets: u64,
    pub unreadable_targets: u64,
    pub include_dir_hits: u64,
    pub nested_includes: u64,
    pub max_reads: u64,
    pub reads_total: u64,
}

pub const C16_READ_BUDGET: u64 = 10_000;

/// Runs the real ide layer on one graph and judges it. Panics inside the analysis are
/// caught; a stack overflow kills the process (the driver's write-ahead file covers that).
pub fn check_c16(g: &Graph, stats: &mut C16Stats) -> Vec<Violation> {
    let mut v = Vec::new();
    if g.has_cycle() {
        stats.cycles += 1;
    }
    if g.edges.iter().enumerate().any(|(i, es)| es.iter().any(|e| e.target == Target::File(i))) {
        stats.self_loops += 1;
    }
    if g.has_diamond() {
        stats.diamonds += 1;
    }
    for es in &g.edges {
        for e in es {
            match e.target {
                Target::Missing(_) => stats.missing_targets += 1,
                Target::Unreadable(_) => stats.unreadable_targets += 1,
                Target::IncDir(_) if g.include_dir_set => stats.include_dir_hits += 1,
                _ => {}
            }
            if e.nested {
                stats.nested_includes += 1;
            }
        }
    }
    if g.include_dir_set {
        std::env::set_var("INCLUDE_DIR", "/w/inc");
    } else {
        std::env::remove_var("INCLUDE_DIR");
    }
    let files = g.files();
    let root_path = PathBuf::from(gpath(g.root));
    let root_text = files[&root_path].clone();

    // (i) termination within the read budget
    let built = std::panic::catch_unwind(std::panic::AssertUnwindSafe(|| {
        let mut fs = MemFs::new(files.clone());
        fs.read_budget = C16_READ_BUDGET;
        let mut host = AnalysisHost::new();
        let root_id = fs.id_of(&root_path);
        host.set_file_content(root_id, Arc::from(root_text.as_str()));
        host.set_root_file(&mut fs, root_id);
        let reads = fs.reads.get();
        (RefHost { host, fs, root: root_id, texts: files.clone() }, reads)
    }));
    crate::exec::take_last_panic();
    let (host, reads) = match built {
        Ok(x) => x,
        Err(p) => {
            let msg = panic_text(&p);
            if msg.contains(MEMFS_BUDGET_MSG) {
                v.push(Violation::new("C16", "non-termination", format!("selecting the root exceeded {C16_READ_BUDGET} disk reads")));
            } else {
                v.push(Violation::new("C16", "panic-selecting-root", msg));
            }
            return v;
        }
    };
    stats.max_reads = stats.max_reads.max(reads);
    stats.reads_total += reads;

    let judged = std::panic::catch_unwind(std::panic::AssertUnwindSafe(|| {
        let mut v = Vec::new();
        // (ii) exact reachability
        let expected = g.reachable();
        let got: BTreeSet<String> = host.workspace().into_iter().collect();
        if got != expected {
            v.push(Violation::new("C16", "reachability", format!("workspace {got:?}, reachable {expected:?}")));
        }
        for (i, es) in g.edges.iter().enumerate() {
            let p = gpath(i);
            if !expected.contains(&p) {
                continue;
            }
            let (text, spans) = g.render(i);
            let map = crate::refmap::RefMap::new(&text);
            let fmt = |a: usize, b: usize| {
                let (sl, sc) = map.position(a);
                let (el, ec) = map.position(b);
                format!("{sl}:{sc}-{el}:{ec}")
            };
            // (iii) links and not-found diagnostics
            let mut exp_links = Vec::new();
            let mut exp_notfound = Vec::new();
            for (e, (st, en, lit, lit_end)) in es.iter().zip(spans.iter()) {
                match g.resolve(&e.target) {
                    Some(t) => exp_links.push(format!("{}->{}", fmt(*lit, *lit_end), t)),
                    None => exp_notfound.push((fmt(*st, *en), g.include_name(&e.target))),
                }
            }
            exp_links.sort();
            let got_links = host.expected(ReqKind::DocumentLink, &p, 0, true).unwrap_or_default();
            if got_links != exp_links {
                let nested = es.iter().any(|e| e.nested);
                let class = if nested { "links-nested-include" } else { "links" };
                v.push(Violation::new("C16", class, format!("{p}: links {got_links:?}, expected {exp_links:?}")));
            }
            // one not-found diagnostic per unresolvable statement, in this file, whose range
            // covers the statement (the node's range may include trailing trivia)
            let file_diags = host.raw_diagnostics(&p);
            let got_nf: Vec<&(usize, usize, String)> = file_diags.iter().filter(|d| d.2.contains("include file not found")).collect();
            let nested = es.iter().any(|e| e.nested);
            let class = if nested { "not-found-nested-include" } else { "not-found" };
            let mut unmatched: Vec<&(usize, usize, String)> = got_nf.clone();
            for (e, (st, en, _, _)) in es.iter().zip(spans.iter()) {
                if g.resolve(&e.target).is_some() {
                    continue;
                }
                let name = g.include_name(&e.target);
                match unmatched.iter().position(|d| d.0 <= *st && d.1 >= *en && d.2.contains(&name)) {
                    Some(i) => {
                        unmatched.remove(i);
                    }
                    None => v.push(Violation::new("C16", class, format!("{p}: no not-found diagnostic covers `include \"{name}\"` at {st}..{en}; got {got_nf:?}"))),
                }
            }
            if !unmatched.is_empty() {
                v.push(Violation::new("C16", class, format!("{p}: not-found diagnostics for statements that resolve or do not exist: {unmatched:?}")));
            }
            // (iv) single indexing
            let syms = host.expected(ReqKind::DocumentSymbol, &p, 0, false).unwrap_or_default();
            let n = syms.iter().filter(|s| **s == format!("0:C_{i}")).count();
            if n != 1 {
                v.push(Violation::new("C16", "single-indexing", format!("{p}: class C_{i} appears {n} times in its outline {syms:?}")));
            }
        }
        v
    }));
    match judged {
        Ok(mut vs) => v.append(&mut vs),
        Err(p) => {
            crate::exec::take_last_panic();
            v.push(Violation::new("C16", "panic-analysing", panic_text(&p)));
        }
    }
    v
}

pub fn panic_text(p: &Box<dyn std::any::Any + Send>) -> String {
    if let Some(s) = p.downcast_ref::<&str>() {
        s.to_string()
    } else if let Some(s) = p.downcast_ref::<String>() {
        s.clone()
    } else {
        "<non-string panic>".into()
    }
}

// =============================================================================== C07

#[derive(Clone, Debug, PartialEq, Eq, Serialize, Deserialize)]
pub enum HistOp {
    /// editor changes `path`: disk write + set_file_content + set_root_file
    Edit { path: String, text: String },
    /// editor opens `path` with its on-disk text (root switch)
    Touch { path: String },
    DiskWrite { path: String, text: String },
    DiskRemove { path: String },
    /// the file exists but cannot be read
    DiskUnreadable { path: String },
}

impl HistOp {
    pub fn kind_name(&self) -> &'static str {
        match self {
            HistOp::Edit { .. } => "Edit",
            HistOp::Touch { .. } => "Touch",
            HistOp::DiskWrite { .. } => "DiskWrite",
            HistOp::DiskRemove { .. } => "DiskRemove",
            HistOp::DiskUnreadable { .. } => "DiskUnreadable",
        }
    }
}

#[derive(Clone, Debug, PartialEq, Eq, Serialize, Deserialize)]
pub struct HistScenario {
    pub disk0: BTreeMap<String, String>,
    pub include_dir: bool,
    pub ops: Vec<HistOp>,
}

impl HistScenario {
    pub fn shape_hash(&self) -> u64 {
        let mut h = StableHasher::new();
        h.u64(self.include_dir as u64);
        for op in &self.ops {
            h.str(op.kind_name());
            match op {
                HistOp::Edit { path, text } | HistOp::DiskWrite { path, text } => {
                    h.str(path);
                    // include structure of the text
                    for l in text.lines().filter(|l| l.starts_with("include")) {
                        h.str(l);
                    }
                }
                HistOp::Touch { path } | HistOp::DiskRemove { path } | HistOp::DiskUnreadable { path } => h.str(path),
            }
        }
        h.finish()
    }
}

pub fn gen_hist(rng: &mut Rng) -> HistScenario {
    let include_dir = rng.chance(1, 4);
    let n = rng.range(2, 4);
    let all = ["a", "b", "c", "e"];
    let mut keys: Vec<&str> = all[..n].to_vec();
    if include_dir {
        keys.push("d");
    }
    let cfg = GenCfg { alphabet: Alphabet::Ascii, eol: Eol::Lf, allow_faults: true, allow_syntax_fault: true, max_lead: 2 };
    let mut vs = Versions(0);
    let mut specs: BTreeMap<String, TextSpec> = BTreeMap::new();
    let mut disk0 = BTreeMap::new();
    let inc = |keys: &[&str], k: &str| -> Vec<String> {
        let i = keys.iter().position(|x| *x == k).unwrap();
        keys[i + 1..].iter().map(|s| s.to_string()).collect()
    };
    for k in &keys {
        let incl = inc(&keys, k);
        let incl_ref: Vec<&str> = incl.iter().map(|s| s.as_str()).collect();
        let spec = gen::gen_text(rng, &mut vs, k, &incl_ref, &cfg);
        disk0.insert(gen::path_of_key(k), spec.render());
        specs.insert(k.to_string(), spec);
    }
    let mut present: BTreeSet<String> = disk0.keys().cloned().collect();
    let mut ops = Vec::new();
    let n_ops = rng.range(3, 15);
    let mut root: Option<String> = None;
    while ops.len() < n_ops {
        let k = *rng.pick(&keys);
        let path = gen::path_of_key(k);
        let incl = inc(&keys, k);
        let incl_ref: Vec<&str> = incl.iter().map(|s| s.as_str()).collect();
        let roll = rng.below(10);
        if root.is_none() || roll < 4 {
            let spec = gen::edit_text(rng, &mut vs, &specs[k].clone(), &incl_ref, &cfg);
            let text = spec.render();
            specs.insert(k.to_string(), spec);
            present.insert(path.clone());
            root = Some(path.clone());
            ops.push(HistOp::Edit { path, text });
        } else if roll < 6 {
            if present.contains(&path) {
                root = Some(path.clone());
                ops.push(HistOp::Touch { path });
            }
        } else {
            // disk-only event on a non-root file, then an editor action
            if Some(&path) == root.as_ref() {
                continue;
            }
            match rng.below(4) {
                0 => {
                    present.remove(&path);
                    ops.push(HistOp::DiskRemove { path });
                }
                1 => {
                    present.remove(&path);
                    ops.push(HistOp::DiskUnreadable { path });
                }
                _ => {
                    let spec = gen::edit_text(rng, &mut vs, &specs[k].clone(), &incl_ref, &cfg);
                    let text = spec.render();
                    specs.insert(k.to_string(), spec);
                    present.insert(path.clone());
                    ops.push(HistOp::DiskWrite { path, text });
                }
            }
            // followed by an editor action on some present file
            let cands: Vec<String> = present.iter().cloned().collect();
            if cands.is_empty() {
                continue;
            }
            let p = rng.pick(&cands).clone();
            root = Some(p.clone());
            if rng.chance(1, 2) {
                ops.push(HistOp::Touch { path: p });
            } else {
                let k2 = gen::key_for(&p);
                let incl2 = inc(&keys, &k2);
                let incl2_ref: Vec<&str> = incl2.iter().map(|s| s.as_str()).collect();
                let spec = gen::edit_text(rng, &mut vs, &specs[&k2].clone(), &incl2_ref, &cfg);
                let text = spec.render();
                specs.insert(k2, spec);
                ops.push(HistOp::Edit { path: p, text });
            }
        }
    }
    HistScenario { disk0, include_dir, ops }
}

#[derive(Default, Clone, Debug)]
pub struct C07Stats {
    pub comparisons: u64,
    pub queries: u64,
    pub root_switches: u64,
    pub include_added: u64,
    pub include_removed: u64,
    pub file_disappeared: u64,
    pub file_reappeared: u64,
    pub unreadable: u64,
    pub workspace_shrank: u64,
    pub discarded_fresh_panic: u64,
}

/// Everything an editor can ask, as one canonical value.
fn full_query_set(h: &RefHost, queries: &mut u64) -> BTreeMap<String, Option<Vec<String>>> {
    let mut out = BTreeMap::new();
    let ws = h.workspace();
    out.insert("workspace".to_string(), Some(ws.clone()));
    for (p, d) in h.diagnostics(true) {
        out.insert(format!("diag {p}"), Some(d));
        *queries += 1;
    }
    for p in &ws {
        let Some(id) = h.file_id(p) else { continue };
        let text = h.text_of(id).to_string();
        for kind in ALL_REQ_KINDS {
            if kind.positional() {
                for (off, _) in name_offsets(&text) {
                    out.insert(format!("{kind:?} {p}@{off}"), h.expected(kind, p, off, true));
                    *queries += 1;
                }
            } else {
                out.insert(format!("{kind:?} {p}"), h.expected(kind, p, 0, true));
                *queries += 1;
            }
        }
    }
    out
}

pub fn check_c07(sc: &HistScenario, stats: &mut C07Stats) -> Vec<Violation> {
    if sc.include_dir {
        std::env::set_var("INCLUDE_DIR", gen::INC_DIR);
    } else {
        std::env::remove_var("INCLUDE_DIR");
    }
    let res = std::panic::catch_unwind(std::panic::AssertUnwindSafe(|| {
        let mut v = Vec::new();
        let mut disk: BTreeMap<PathBuf, String> = sc.disk0.iter().map(|(p, t)| (PathBuf::from(p), t.clone())).collect();
        // the long-lived host and its file system (ids persist, like the server's Vfs)
        let mut live = RefHost { host: AnalysisHost::new(), fs: MemFs::new(disk.clone()), root: ide::file_system::FileId(0), texts: disk.clone() };
        let mut prev_ws: Vec<String> = Vec::new();
        let mut prev_root: Option<String> = None;
        for (i, op) in sc.ops.iter().enumerate() {
            let touched = match op {
                HistOp::Edit { path, text } => {
                    disk.insert(PathBuf::from(path), text.clone());
                    Some((path.clone(), text.clone()))
                }
                HistOp::Touch { path } => disk.get(&PathBuf::from(path)).map(|t| (path.clone(), t.clone())),
                HistOp::DiskWrite { path, text } => {
                    if !disk.contains_key(&PathBuf::from(path)) {
                        stats.file_reappeared += 1;
                    }
                    disk.insert(PathBuf::from(path), text.clone());
                    None
                }
                HistOp::DiskRemove { path } => {
                    if disk.remove(&PathBuf::from(path)).is_some() {
                        stats.file_disappeared += 1;
                    }
                    None
                }
                HistOp::DiskUnreadable { path } => {
                    if disk.remove(&PathBuf::from(path)).is_some() {
                        stats.unreadable += 1;
                    }
                    None
                }
            };
            live.fs.files = disk.clone();
            live.texts = disk.clone();
            let Some((path, text)) = touched else { continue };
            if prev_root.as_ref().map(|r| *r != path).unwrap_or(false) {
                stats.root_switches += 1;
            }
            prev_root = Some(path.clone());
            // the server's call pattern for didOpen / didChange
            let id = live.fs.id_of(&PathBuf::from(&path));
            live.host.set_file_content(id, Arc::from(text.as_str()));
            live.host.set_root_file(&mut live.fs, id);
            live.root = id;

            // a panic of the FRESH analysis is an analysis-totality matter (not this property):
            // the scenario is dropped
            let fresh_res = std::panic::catch_unwind(std::panic::AssertUnwindSafe(|| {
                let fresh = RefHost::fresh(&disk, &PathBuf::from(&path), &text);
                let mut q = 0u64;
                let b = full_query_set(&fresh, &mut q);
                (fresh.workspace(), b, q)
            }));
            let Ok((fresh_ws, b, q)) = fresh_res else {
                crate::exec::take_last_panic();
                stats.discarded_fresh_panic += 1;
                return v;
            };
            stats.queries += q;
            let a = full_query_set(&live, &mut stats.queries);
            stats.comparisons += 1;
            let ws = fresh_ws;
            if ws.len() < prev_ws.len() {
                stats.workspace_shrank += 1;
            }
            for p in &ws {
                if !prev_ws.contains(p) {
                    stats.include_added += 1;
                }
            }
            for p in &prev_ws {
                if !ws.contains(p) {
                    stats.include_removed += 1;
                }
            }
            prev_ws = ws;
            if a != b {
                let keys: BTreeSet<&String> = a.keys().chain(b.keys()).collect();
                let mut first = String::new();
                let mut n = 0;
                for k in keys {
                    if a.get(k) != b.get(k) {
                        n += 1;
                        if first.is_empty() {
                            first = format!("{k}: long-lived {:?}, fresh {:?}", a.get(k), b.get(k));
                        }
                    }
                }
                let what = first.split(' ').next().unwrap_or("").to_string();
                v.push(Violation::new("C07", format!("history-dependent:{what}"), format!("after op {i} ({}) {n} queries differ; first: {first}", op.kind_name())));
                break;
            }
        }
        v
    }));
    match res {
        Ok(v) => v,
        Err(p) => {
            crate::exec::take_last_panic();
            vec![Violation::new("C07", "history-dependent:panic", format!("the long-lived host panicked where a fresh one answers: {}", panic_text(&p)))]
        }
    }
}
