//! ide-layer checks (no threads): C16 (include graphs at the disk seam) and C07 (edit
//! histories against a fresh host). The seam is the repository's own `FileSystem` trait.

use std::collections::{BTreeMap, BTreeSet, VecDeque};
use std::path::PathBuf;
use std::sync::Arc;

use ide::analysis::AnalysisHost;
use serde::{Deserialize, Serialize};

use crate::gen::{self, name_offsets, Alphabet, Eol, GenCfg, TextSpec, Versions};
use crate::model::{MemFs, RefHost, MEMFS_BUDGET_MSG};
use crate::oracle::Violation;
use crate::rng::{Rng, StableHasher};
use crate::scenario::{ReqKind, ALL_REQ_KINDS};

// =============================================================================== C16

/// One include statement as written.
#[derive(Clone, Debug, PartialEq, Eq, Serialize, Deserialize)]
pub struct GInc {
    /// the string in the include statement ("f1.td", "sub/f0.td", "missing3.td", ...)
    pub name: String,
    /// the statement sits inside a block instead of at top level
    pub nested: bool,
    /// which block: 0 `let ... in { }`, 1 a defset body, 2 a foreach body, 3 the then-branch
    /// and 4 the else-branch of an `if`, 5 a foreach whose iterator the analysis cannot type
    /// (`!cond`), 6 a defset whose element class does not exist - legal or at least parseable
    /// blocks whose body is there all the same
    #[serde(default)]
    pub wrap: u8,
}

#[derive(Clone, Debug, PartialEq, Eq, Serialize, Deserialize)]
pub struct GFile {
    pub path: String,
    pub includes: Vec<GInc>,
}

/// An include graph as a state of the disk: readable files in several directories (the same
/// base name may exist in more than one), paths that exist but cannot be read, and the
/// INCLUDE_DIR search directory.
#[derive(Clone, Debug, PartialEq, Eq, Serialize, Deserialize)]
pub struct Graph {
    pub files: Vec<GFile>,
    pub unreadable: Vec<String>,
    pub include_dir: Option<String>,
    pub root: usize,
    /// files (indices, never the root) that do NOT exist on disk at the moment
    #[serde(default)]
    pub hidden: Vec<usize>,
    /// if set: after the first selection of the root the disk changes so that exactly these
    /// files are missing, and the root is selected AGAIN on the same long-lived host
    #[serde(default)]
    pub second_hidden: Option<Vec<usize>>,
}

fn parent_of(path: &str) -> &str {
    match path.rfind('/') {
        Some(i) => &path[..i],
        None => "",
    }
}

impl Graph {
    /// (text, per include statement: statement start, statement end, literal start, literal end)
    pub fn render(&self, i: usize) -> (String, Vec<(usize, usize, usize, usize)>) {
        let mut s = String::new();
        let mut spans = Vec::new();
        for (n, inc) in self.files[i].includes.iter().enumerate() {
            if inc.nested {
                match inc.wrap {
                    1 => s.push_str(&format!("class W{n}; defset list<W{n}> S{n} = {{ ")),
                    2 => s.push_str("foreach w = [1, 2] in { "),
                    3 => s.push_str("if 1 then { "),
                    4 => s.push_str("if 0 then { } else { "),
                    5 => s.push_str("foreach w = !cond(1: [1, 2]) in { "),
                    6 => s.push_str(&format!("defset list<NoSuchClass{n}> S{n} = {{ ")),
                    _ => s.push_str("let z = 1 in { "),
                }
            }
            let st = s.len();
            s.push_str("include ");
            let lit = s.len();
            s.push_str(&format!("\"{}\"", inc.name));
            let en = s.len();
            spans.push((st, en, lit, en));
            if inc.nested {
                s.push_str(" }");
            }
            s.push('\n');
        }
        s.push_str(&format!("class C_{i};\n"));
        (s, spans)
    }

    pub fn disk(&self) -> BTreeMap<PathBuf, String> {
        (0..self.files.len())
            .filter(|i| !self.hidden.contains(i))
            .map(|i| (PathBuf::from(&self.files[i].path), self.render(i).0))
            .collect()
    }

    fn index_of(&self, path: &str) -> Option<usize> {
        self.files.iter().position(|f| f.path == path).filter(|i| !self.hidden.contains(i))
    }

    /// Independent model of include resolution: the includer's directory first, then
    /// INCLUDE_DIR; the first candidate that is a readable file wins.
    pub fn resolve(&self, includer: usize, name: &str) -> Option<usize> {
        // joining like a path library does: an absolute name replaces the base, an empty base
        // leaves a relative path (which names nothing on this disk), "." / ".." are resolved
        let join = |base: &str, name: &str| -> Option<String> {
            let joined = if name.starts_with('/') {
                name.to_string()
            } else if base.is_empty() {
                return None;
            } else {
                format!("{}/{}", base.trim_end_matches('/'), name)
            };
            Some(crate::model::norm_path(&joined))
        };
        if let Some(i) = join(parent_of(&self.files[includer].path), name).and_then(|p| self.index_of(&p)) {
            return Some(i);
        }
        if let Some(d) = &self.include_dir {
            return join(d, name).and_then(|p| self.index_of(&p));
        }
        None
    }

    /// Independent model: reachable set by BFS with a visited set over resolvable edges.
    pub fn reachable(&self) -> BTreeSet<usize> {
        let mut seen = BTreeSet::new();
        let mut q = VecDeque::new();
        seen.insert(self.root);
        q.push_back(self.root);
        while let Some(i) = q.pop_front() {
            for inc in &self.files[i].includes {
                if let Some(j) = self.resolve(i, &inc.name) {
                    if seen.insert(j) {
                        q.push_back(j);
                    }
                }
            }
        }
        seen
    }

    pub fn has_cycle(&self) -> bool {
        fn dfs(g: &Graph, i: usize, stack: &mut Vec<usize>, done: &mut BTreeSet<usize>) -> bool {
            if stack.contains(&i) {
                return true;
            }
            if done.contains(&i) {
                return false;
            }
            stack.push(i);
            for inc in &g.files[i].includes {
                if let Some(j) = g.resolve(i, &inc.name) {
                    if dfs(g, j, stack, done) {
                        return true;
                    }
                }
            }
            stack.pop();
            done.insert(i);
            false
        }
        dfs(self, self.root, &mut Vec::new(), &mut BTreeSet::new())
    }

    /// some file is reached along two different include statements
    pub fn has_diamond(&self) -> bool {
        let mut indeg: BTreeMap<usize, usize> = BTreeMap::new();
        for i in self.reachable() {
            for inc in &self.files[i].includes {
                if let Some(j) = self.resolve(i, &inc.name) {
                    *indeg.entry(j).or_default() += 1;
                }
            }
        }
        indeg.values().any(|d| *d > 1)
    }

    /// the same written name resolves to different files from different includers
    pub fn has_name_collision(&self) -> bool {
        let mut by_name: BTreeMap<&str, BTreeSet<Option<usize>>> = BTreeMap::new();
        for i in self.reachable() {
            for inc in &self.files[i].includes {
                by_name.entry(inc.name.as_str()).or_default().insert(self.resolve(i, &inc.name));
            }
        }
        by_name.values().any(|s| s.len() > 1)
    }

    pub fn shape_hash(&self) -> u64 {
        let mut h = StableHasher::new();
        h.u64(self.root as u64);
        h.u64(self.include_dir.is_some() as u64);
        for f in &self.files {
            h.str(&f.path);
            for inc in &f.includes {
                h.u64(inc.nested as u64);
                // numbered missing/unreadable names are one shape
                let n: String = inc.name.chars().filter(|c| !c.is_ascii_digit() || inc.name.starts_with('f') || inc.name.contains("/f")).collect();
                h.str(&n);
            }
        }
        h.u64(self.unreadable.len() as u64);
        for i in &self.hidden {
            h.u64(0x1000 + *i as u64);
        }
        if let Some(sh) = &self.second_hidden {
            h.u64(0x2000);
            for i in sh {
                h.u64(0x2000 + *i as u64);
            }
        }
        h.finish()
    }
}

const DIRS: [&str; 3] = ["/w", "/w/sub", "/w/inc"];

/// A ladder of stacked diamonds: `l<i>` includes `a<i>` and `b<i>` (now and then a third,
/// `c<i>`), which all include `l<i+1>`. The number of PATHS from the root to rung i doubles
/// with every rung while the number of files grows by three: a walk that follows every path
/// instead of every file does not come back.
fn gen_ladder(rng: &mut Rng, allow_nested: bool) -> Graph {
    let rungs = rng.range(16, 36);
    let mut files: Vec<GFile> = Vec::new();
    let nested = allow_nested && rng.chance(1, 4);
    files.push(GFile { path: "/w/f0.td".into(), includes: vec![] });
    let rail = |i: usize| if i == 0 { "f0.td".to_string() } else { format!("l{i}.td") };
    for i in 0..rungs {
        let sides: Vec<String> = ["a", "b", "c"][..if rng.chance(1, 5) { 3 } else { 2 }].iter().map(|s| format!("{s}{i}.td")).collect();
        let li = files.iter().position(|f| f.path == format!("/w/{}", rail(i))).unwrap();
        for sname in &sides {
            files[li].includes.push(GInc { name: sname.clone(), nested: nested && rng.chance(1, 3), wrap: rng.below(7) as u8 });
        }
        let last = i + 1 == rungs;
        for sname in &sides {
            let includes = if last { vec![] } else { vec![GInc { name: rail(i + 1), nested: false, wrap: 0 }] };
            files.push(GFile { path: format!("/w/{sname}"), includes });
        }
        if !last {
            files.push(GFile { path: format!("/w/{}", rail(i + 1)), includes: vec![] });
        }
    }
    if rng.chance(1, 3) {
        // the bottom closes a cycle back to the top
        let n = files.len();
        files[n - 1].includes.push(GInc { name: "f0.td".into(), nested: false, wrap: 0 });
    }
    Graph { files, unreadable: Vec::new(), include_dir: None, root: 0, hidden: Vec::new(), second_hidden: None }
}

pub fn gen_graph(rng: &mut Rng, allow_nested: bool) -> Graph {
    if rng.chance(1, 40) {
        return gen_ladder(rng, allow_nested);
    }
    let n = match rng.below(10) {
        0 => 1,
        1..=3 => 2,
        4..=6 => 3,
        7 | 8 => 4,
        _ => rng.range(5, 6),
    };
    // now and then a large graph (long chains, wide fan-out): depth and size thresholds
    let large = rng.chance(1, 25);
    let n = if large { if rng.chance(1, 4) { rng.range(60, 140) } else { rng.range(10, 36) } } else { n };
    let name_pool = if large { 50 } else { 4 };
    // files: the root in /w, the others anywhere; base names f0..f3 repeat across directories
    let mut files: Vec<GFile> = vec![GFile { path: "/w/f0.td".into(), includes: vec![] }];
    let spread = rng.chance(1, 2); // half of the graphs stay in one directory
    let n = if spread || large { n } else { n.min(4) }; // one directory holds only f0..f3
    while files.len() < n {
        let dir = if spread || large { DIRS[rng.below(3)] } else { "/w" };
        let path = format!("{dir}/f{}.td", rng.below(name_pool));
        if files.iter().all(|f| f.path != path) {
            files.push(GFile { path, includes: vec![] });
        }
    }
    // INCLUDE_DIR: unset, the usual directory, and now and then an odd but legal value (a
    // trailing slash, the includers' own directory, the empty string)
    let include_dir = match rng.below(13) {
        0..=5 => None,
        6..=8 => Some("/w/inc".to_string()),
        9 => Some("/w/inc/".to_string()),
        10 | 11 => match rng.below(3) {
            0 => Some("/w".to_string()),
            // not normalised: the same directory spelled through "." or ".."
            1 => Some("/w/sub/../inc".to_string()),
            _ => Some("/w/./inc".to_string()),
        },
        _ => Some(String::new()),
    };
    let nested_graph = allow_nested && rng.chance(1, 4);
    let dotdot = rng.chance(1, 3);
    let mut counter = 0u32;
    let mut unreadable = Vec::new();
    let chain = large && rng.chance(1, 2);
    for i in 0..files.len() {
        if chain && i + 1 < files.len() {
            // a long chain: file i includes file i+1 by a path that resolves from its directory
            let next = files[i + 1].path.clone();
            files[i].includes.push(GInc { name: next, nested: false, wrap: 0 });
        }
        let deg = if large && !chain && i == 0 { rng.range(8, 20) } else { [0, 1, 1, 2, 2, 3][rng.below(6)] };
        for _ in 0..deg {
            let name = match rng.below(14) {
                0 => {
                    // a small pool, so that the same missing file is included from several
                    // places (and twice in one file)
                    counter += 1;
                    format!("missing{}.td", 1 + rng.below(3))
                }
                6 if rng.chance(1, 3) => {
                    // an absolute path in the include statement
                    let t = rng.below(files.len());
                    files[t].path.clone()
                }
                1 => {
                    counter += 1;
                    let name = format!("unreadable{counter}.td");
                    unreadable.push(format!("{}/{}", parent_of(&files[i].path), name));
                    name
                }
                2 | 3 if spread => format!("sub/f{}.td", rng.below(4)),
                4 if spread => format!("inc/f{}.td", rng.below(4)),
                // the same files, spelled through "." and ".." (only through directories that
                // exist: the includer's own, or one that holds a file of the graph)
                5 if dotdot => {
                    let dir = parent_of(&files[i].path).to_string();
                    if dir == "/w" {
                        let has_sub = files.iter().any(|f| f.path.starts_with("/w/sub/"));
                        if has_sub { format!("sub/../f{}.td", rng.below(4)) } else { format!("./f{}.td", rng.below(4)) }
                    } else {
                        format!("../f{}.td", rng.below(4))
                    }
                }
                _ => {
                    // mostly names of files that exist somewhere, so that most includes resolve
                    let t = rng.below(files.len());
                    let p = &files[t].path;
                    p[p.rfind('/').unwrap() + 1..].to_string()
                }
            };
            files[i].includes.push(GInc { name, nested: nested_graph && rng.chance(1, 2), wrap: rng.below(7) as u8 });
        }
    }
    // A third of the graphs get a second root selection after the disk changed: a file that
    // was missing appears, or a file that was there disappears (or both).
    let mut hidden = Vec::new();
    let mut second_hidden = None;
    if files.len() >= 2 && rng.chance(1, 3) {
        let mut second = Vec::new();
        for i in 1..files.len() {
            match rng.below(6) {
                0 => hidden.push(i),           // missing first, appears
                1 => second.push(i),           // there first, disappears
                2 if rng.chance(1, 3) => {
                    hidden.push(i);
                    second.push(i);            // missing all along
                }
                _ => {}
            }
        }
        second_hidden = Some(second);
    }
    Graph { files, unreadable, include_dir, root: 0, hidden, second_hidden }
}

#[derive(Default, Clone, Debug)]
pub struct C16Stats {
    pub cycles: u64,
    pub self_loops: u64,
    pub diamonds: u64,
    pub name_collisions: u64,
    pub missing_targets: u64,
    pub unreadable_targets: u64,
    pub include_dir_hits: u64,
    pub nested_includes: u64,
    pub reselect: u64,
    pub file_appeared: u64,
    pub file_disappeared: u64,
    pub max_reads: u64,
    pub reads_total: u64,
}

pub const C16_READ_BUDGET: u64 = 10_000;

pub fn graph_stats(g: &Graph, stats: &mut C16Stats) {
    if g.has_cycle() {
        stats.cycles += 1;
    }
    if (0..g.files.len()).any(|i| g.files[i].includes.iter().any(|inc| g.resolve(i, &inc.name) == Some(i))) {
        stats.self_loops += 1;
    }
    if g.has_diamond() {
        stats.diamonds += 1;
    }
    if g.has_name_collision() {
        stats.name_collisions += 1;
    }
    for (i, f) in g.files.iter().enumerate() {
        for inc in &f.includes {
            if inc.name.starts_with("missing") {
                stats.missing_targets += 1;
            }
            if inc.name.starts_with("unreadable") {
                stats.unreadable_targets += 1;
            }
            if let (Some(j), Some(d)) = (g.resolve(i, &inc.name), &g.include_dir) {
                let own = format!("{}/{}", parent_of(&f.path), inc.name);
                if g.files[j].path != own && g.files[j].path.starts_with(d.as_str()) {
                    stats.include_dir_hits += 1;
                }
            }
            if inc.nested {
                stats.nested_includes += 1;
            }
        }
    }
}

/// Runs the real ide layer on one graph and judges it. Panics inside the analysis are
/// caught; a stack overflow kills the process (the driver's write-ahead file covers that).
pub fn check_c16(g: &Graph, stats: &mut C16Stats) -> Vec<Violation> {
    let mut v = Vec::new();
    graph_stats(g, stats);
    match &g.include_dir {
        Some(d) => std::env::set_var("INCLUDE_DIR", d),
        None => std::env::remove_var("INCLUDE_DIR"),
    }
    let files = g.disk();
    let root_path = PathBuf::from(&g.files[g.root].path);
    let root_text = files[&root_path].clone();

    // (i) termination within the read budget
    let built = std::panic::catch_unwind(std::panic::AssertUnwindSafe(|| {
        let mut fs = MemFs::new(files.clone());
        fs.read_budget = C16_READ_BUDGET;
        let mut host = AnalysisHost::new();
        let root_id = fs.id_of(&root_path);
        host.set_file_content(root_id, Arc::from(root_text.as_str()));
        host.set_root_file(&mut fs, root_id);
        let reads = fs.reads.get();
        (RefHost { host, fs, root: root_id, texts: files.clone(), maps: Default::default() }, reads)
    }));
    crate::exec::take_last_panic();
    let (host, reads) = match built {
        Ok(x) => x,
        Err(p) => {
            let msg = panic_text(&p);
            if msg.contains(MEMFS_BUDGET_MSG) {
                v.push(Violation::new("C16", "non-termination", format!("selecting the root exceeded {C16_READ_BUDGET} disk reads")));
            } else {
                v.push(Violation::new("C16", "panic-selecting-root", msg));
            }
            return v;
        }
    };
    stats.max_reads = stats.max_reads.max(reads);
    stats.reads_total += reads;

    let mut host = host;
    match judge_graph(g, &host) {
        Ok(mut vs) => v.append(&mut vs),
        Err(msg) => v.push(Violation::new("C16", "panic-analysing", msg)),
    }
    // second selection of the same root on the same host after the disk changed
    if let Some(second) = &g.second_hidden {
        stats.reselect += 1;
        stats.file_appeared += g.hidden.iter().filter(|i| !second.contains(i)).count() as u64;
        stats.file_disappeared += second.iter().filter(|i| !g.hidden.contains(i)).count() as u64;
        let mut g2 = g.clone();
        g2.hidden = second.clone();
        g2.second_hidden = None;
        let files2 = g2.disk();
        let again = std::panic::catch_unwind(std::panic::AssertUnwindSafe(|| {
            host.fs.files = files2.clone();
            host.fs.reads.set(0);
            host.set_texts(files2.clone());
            let root_id = host.root;
            host.host.set_file_content(root_id, Arc::from(root_text.as_str()));
            host.host.set_root_file(&mut host.fs, root_id);
        }));
        crate::exec::take_last_panic();
        match again {
            Err(p) => {
                let msg = panic_text(&p);
                if msg.contains(MEMFS_BUDGET_MSG) {
                    v.push(Violation::new("C16", "reselect:non-termination", "re-selecting the root exceeded the disk-read budget"));
                } else {
                    v.push(Violation::new("C16", "reselect:panic-selecting-root", msg));
                }
            }
            Ok(()) => match judge_graph(&g2, &host) {
                Ok(vs) => {
                    for x in vs {
                        v.push(Violation::new("C16", format!("reselect:{}", x.class), x.detail));
                    }
                }
                Err(msg) => v.push(Violation::new("C16", "reselect:panic-analysing", msg)),
            },
        }
    }
    v
}

/// Checks (ii)-(iv) of one selected root against the independent graph model.
fn judge_graph(g: &Graph, host: &RefHost) -> Result<Vec<Violation>, String> {
    let judged = std::panic::catch_unwind(std::panic::AssertUnwindSafe(|| {
        let mut v = Vec::new();
        // (ii) exact reachability
        let reach = g.reachable();
        let expected: BTreeSet<String> = reach.iter().map(|i| g.files[*i].path.clone()).collect();
        let got: BTreeSet<String> = host.workspace().into_iter().collect();
        if got != expected {
            v.push(Violation::new("C16", "reachability", format!("workspace {got:?}, reachable {expected:?}")));
        }
        for &i in &reach {
            let p = g.files[i].path.clone();
            if !got.contains(&p) {
                continue;
            }
            let es = &g.files[i].includes;
            let (text, spans) = g.render(i);
            let map = crate::refmap::RefMap::new(&text);
            let fmt = |a: usize, b: usize| {
                let (sl, sc) = map.position(a);
                let (el, ec) = map.position(b);
                format!("{sl}:{sc}-{el}:{ec}")
            };
            let nested = es.iter().any(|e| e.nested);
            // (iii) links ...
            let mut exp_links = Vec::new();
            for (e, (_, _, lit, lit_end)) in es.iter().zip(spans.iter()) {
                if let Some(t) = g.resolve(i, &e.name) {
                    exp_links.push(format!("{}->{}", fmt(*lit, *lit_end), g.files[t].path));
                }
            }
            exp_links.sort();
            let got_links = host.expected(ReqKind::DocumentLink, &p, 0, true).unwrap_or_default();
            if got_links != exp_links {
                let class = if nested { "links-nested-include" } else { "links" };
                v.push(Violation::new("C16", class, format!("{p}: links {got_links:?}, expected {exp_links:?}")));
            }
            // ... and one not-found diagnostic per unresolvable statement, in this file, whose
            // range covers the statement (the node's range may include trailing trivia)
            let file_diags = host.raw_diagnostics(&p);
            let got_nf: Vec<&(usize, usize, String)> = file_diags.iter().filter(|d| d.2.contains("include file not found")).collect();
            let class = if nested { "not-found-nested-include" } else { "not-found" };
            let mut unmatched: Vec<&(usize, usize, String)> = got_nf.clone();
            for (e, (st, en, _, _)) in es.iter().zip(spans.iter()) {
                if g.resolve(i, &e.name).is_some() {
                    continue;
                }
                match unmatched.iter().position(|d| d.0 <= *st && d.1 >= *en && d.2.contains(&e.name)) {
                    Some(k) => {
                        unmatched.remove(k);
                    }
                    None => v.push(Violation::new("C16", class, format!("{p}: no not-found diagnostic covers `include \"{}\"` at {st}..{en}; got {got_nf:?}", e.name))),
                }
            }
            if !unmatched.is_empty() {
                v.push(Violation::new("C16", class, format!("{p}: not-found diagnostics for statements that resolve or do not exist: {unmatched:?}")));
            }
            // (iv) single indexing
            let syms = host.expected(ReqKind::DocumentSymbol, &p, 0, false).unwrap_or_default();
            let n = syms.iter().filter(|s| **s == format!("0:C_{i}")).count();
            if n != 1 {
                v.push(Violation::new("C16", "single-indexing", format!("{p}: class C_{i} appears {n} times in its outline {syms:?}")));
            }
        }
        v
    }));
    match judged {
        Ok(v) => Ok(v),
        Err(p) => {
            crate::exec::take_last_panic();
            Err(panic_text(&p))
        }
    }
}

pub fn panic_text(p: &Box<dyn std::any::Any + Send>) -> String {
    if let Some(s) = p.downcast_ref::<&str>() {
        s.to_string()
    } else if let Some(s) = p.downcast_ref::<String>() {
        s.clone()
    } else {
        "<non-string panic>".into()
    }
}

// =============================================================================== C07

#[derive(Clone, Debug, PartialEq, Eq, Serialize, Deserialize)]
pub enum HistOp {
    /// editor changes `path`: disk write + set_file_content + set_root_file
    Edit { path: String, text: String },
    /// editor opens `path` with its on-disk text (root switch)
    Touch { path: String },
    DiskWrite { path: String, text: String },
    DiskRemove { path: String },
    /// the file exists but cannot be read
    DiskUnreadable { path: String },
}

impl HistOp {
    pub fn kind_name(&self) -> &'static str {
        match self {
            HistOp::Edit { .. } => "Edit",
            HistOp::Touch { .. } => "Touch",
            HistOp::DiskWrite { .. } => "DiskWrite",
            HistOp::DiskRemove { .. } => "DiskRemove",
            HistOp::DiskUnreadable { .. } => "DiskUnreadable",
        }
    }
}

#[derive(Clone, Debug, PartialEq, Eq, Serialize, Deserialize)]
pub struct HistScenario {
    pub disk0: BTreeMap<String, String>,
    pub include_dir: bool,
    pub ops: Vec<HistOp>,
}

impl HistScenario {
    pub fn shape_hash(&self) -> u64 {
        let mut h = StableHasher::new();
        h.u64(self.include_dir as u64);
        for op in &self.ops {
            h.str(op.kind_name());
            match op {
                HistOp::Edit { path, text } | HistOp::DiskWrite { path, text } => {
                    h.str(path);
                    // include structure of the text
                    for l in text.lines().filter(|l| l.starts_with("include")) {
                        h.str(l);
                    }
                }
                HistOp::Touch { path } | HistOp::DiskRemove { path } | HistOp::DiskUnreadable { path } => h.str(path),
            }
        }
        h.finish()
    }
}

pub fn gen_hist(rng: &mut Rng) -> HistScenario {
    let include_dir = rng.chance(1, 4);
    let n = rng.range(2, 4);
    let all = ["a", "b", "c", "e"];
    let mut keys: Vec<&str> = all[..n].to_vec();
    if include_dir {
        keys.push("d");
    }
    // a third of the histories may contain include cycles (they are handled since the C16
    // repairs; the history must not matter there either)
    let cycle_keys: Vec<String> = if rng.chance(1, 3) { keys.iter().filter(|k| **k != "d").map(|k| k.to_string()).collect() } else { Vec::new() };
    let cfg = GenCfg { alphabet: Alphabet::Ascii, eol: Eol::Lf, allow_faults: true, allow_syntax_fault: true, max_lead: 2, cycle_keys };
    let mut vs = Versions(0);
    let mut specs: BTreeMap<String, TextSpec> = BTreeMap::new();
    let mut disk0 = BTreeMap::new();
    let inc = |keys: &[&str], k: &str| -> Vec<String> {
        let i = keys.iter().position(|x| *x == k).unwrap();
        keys[i + 1..].iter().map(|s| s.to_string()).collect()
    };
    for k in &keys {
        let incl = inc(&keys, k);
        let incl_ref: Vec<&str> = incl.iter().map(|s| s.as_str()).collect();
        let spec = gen::gen_text(rng, &mut vs, k, &incl_ref, &cfg);
        disk0.insert(gen::path_of_key(k), spec.render());
        specs.insert(k.to_string(), spec);
    }
    let mut present: BTreeSet<String> = disk0.keys().cloned().collect();
    let mut ops = Vec::new();
    // every text a file ever had: an edit or a disk write sometimes brings an earlier text back
    // (undo, `git checkout`) or repeats the current one
    let mut history: BTreeMap<String, Vec<TextSpec>> = BTreeMap::new();
    for (k, s) in &specs {
        history.entry(k.clone()).or_default().push(s.clone());
    }
    fn next_text(rng: &mut Rng, vs: &mut Versions, specs: &mut BTreeMap<String, TextSpec>, history: &mut BTreeMap<String, Vec<TextSpec>>, k: &str, incl: &[&str], cfg: &GenCfg) -> String {
        let prev = specs[k].clone();
        let roll = rng.below(8);
        let spec = if roll == 0 {
            prev
        } else if roll <= 2 {
            rng.pick(&history[k]).clone()
        } else {
            gen::edit_text(rng, vs, &prev, incl, cfg)
        };
        history.entry(k.to_string()).or_default().push(spec.clone());
        specs.insert(k.to_string(), spec.clone());
        spec.render()
    }
    let n_ops = rng.range(3, 15);
    let mut root: Option<String> = None;
    while ops.len() < n_ops {
        let k = *rng.pick(&keys);
        let path = gen::path_of_key(k);
        let incl = inc(&keys, k);
        let incl_ref: Vec<&str> = incl.iter().map(|s| s.as_str()).collect();
        let roll = rng.below(10);
        if root.is_none() || roll < 4 {
            let text = next_text(rng, &mut vs, &mut specs, &mut history, k, &incl_ref, &cfg);
            present.insert(path.clone());
            root = Some(path.clone());
            ops.push(HistOp::Edit { path, text });
        } else if roll < 6 {
            if present.contains(&path) {
                root = Some(path.clone());
                ops.push(HistOp::Touch { path });
            }
        } else {
            // disk-only event on a non-root file, then an editor action
            if Some(&path) == root.as_ref() {
                continue;
            }
            match rng.below(4) {
                0 => {
                    present.remove(&path);
                    ops.push(HistOp::DiskRemove { path });
                }
                1 => {
                    present.remove(&path);
                    ops.push(HistOp::DiskUnreadable { path });
                }
                _ => {
                    let text = next_text(rng, &mut vs, &mut specs, &mut history, k, &incl_ref, &cfg);
                    present.insert(path.clone());
                    ops.push(HistOp::DiskWrite { path, text });
                }
            }
            // followed by an editor action on some present file
            let cands: Vec<String> = present.iter().cloned().collect();
            if cands.is_empty() {
                continue;
            }
            let p = rng.pick(&cands).clone();
            root = Some(p.clone());
            if rng.chance(1, 2) {
                ops.push(HistOp::Touch { path: p });
            } else {
                let k2 = gen::key_for(&p);
                let incl2 = inc(&keys, &k2);
                let incl2_ref: Vec<&str> = incl2.iter().map(|s| s.as_str()).collect();
                let text = next_text(rng, &mut vs, &mut specs, &mut history, &k2, &incl2_ref, &cfg);
                ops.push(HistOp::Edit { path: p, text });
            }
        }
    }
    HistScenario { disk0, include_dir, ops }
}

#[derive(Default, Clone, Debug)]
pub struct C07Stats {
    pub comparisons: u64,
    pub queries: u64,
    pub root_switches: u64,
    pub include_added: u64,
    pub include_removed: u64,
    pub file_disappeared: u64,
    pub file_reappeared: u64,
    pub unreadable: u64,
    pub workspace_shrank: u64,
    pub discarded_fresh_panic: u64,
}

/// Everything an editor can ask, as one canonical value.
fn full_query_set(h: &RefHost, queries: &mut u64) -> BTreeMap<String, Option<Vec<String>>> {
    let mut out = BTreeMap::new();
    let ws = h.workspace();
    out.insert("workspace".to_string(), Some(ws.clone()));
    for (p, d) in h.diagnostics(true) {
        out.insert(format!("diag {p}"), Some(d));
        *queries += 1;
    }
    for p in &ws {
        let Some(id) = h.file_id(p) else { continue };
        let text = h.text_of(id).to_string();
        for kind in ALL_REQ_KINDS {
            if kind.positional() {
                // every name token of a small file; an evenly spread sample of a large one
                let names = name_offsets(&text);
                let stride = (names.len() / 80).max(1);
                for (off, _) in names.into_iter().step_by(stride) {
                    out.insert(format!("{kind:?} {p}@{off}"), h.expected(kind, p, off, true));
                    *queries += 1;
                }
            } else {
                out.insert(format!("{kind:?} {p}"), h.expected(kind, p, 0, true));
                *queries += 1;
            }
        }
    }
    out
}

pub fn check_c07(sc: &HistScenario, stats: &mut C07Stats) -> Vec<Violation> {
    if sc.include_dir {
        std::env::set_var("INCLUDE_DIR", gen::INC_DIR);
    } else {
        std::env::remove_var("INCLUDE_DIR");
    }
    let res = std::panic::catch_unwind(std::panic::AssertUnwindSafe(|| {
        let mut v = Vec::new();
        let mut disk: BTreeMap<PathBuf, String> = sc.disk0.iter().map(|(p, t)| (PathBuf::from(p), t.clone())).collect();
        // the long-lived host and its file system (ids persist, like the server's Vfs)
        let mut live = RefHost { host: AnalysisHost::new(), fs: MemFs::new(disk.clone()), root: ide::file_system::FileId(0), texts: disk.clone(), maps: Default::default() };
        let mut prev_ws: Vec<String> = Vec::new();
        let mut prev_root: Option<String> = None;
        for (i, op) in sc.ops.iter().enumerate() {
            let touched = match op {
                HistOp::Edit { path, text } => {
                    disk.insert(PathBuf::from(path), text.clone());
                    Some((path.clone(), text.clone()))
                }
                HistOp::Touch { path } => disk.get(&PathBuf::from(path)).map(|t| (path.clone(), t.clone())),
                HistOp::DiskWrite { path, text } => {
                    if !disk.contains_key(&PathBuf::from(path)) {
                        stats.file_reappeared += 1;
                    }
                    disk.insert(PathBuf::from(path), text.clone());
                    None
                }
                HistOp::DiskRemove { path } => {
                    if disk.remove(&PathBuf::from(path)).is_some() {
                        stats.file_disappeared += 1;
                    }
                    None
                }
                HistOp::DiskUnreadable { path } => {
                    if disk.remove(&PathBuf::from(path)).is_some() {
                        stats.unreadable += 1;
                    }
                    None
                }
            };
            live.fs.files = disk.clone();
            live.set_texts(disk.clone());
            let Some((path, text)) = touched else { continue };
            if prev_root.as_ref().map(|r| *r != path).unwrap_or(false) {
                stats.root_switches += 1;
            }
            prev_root = Some(path.clone());
            // the server's call pattern for didOpen / didChange
            let id = live.fs.id_of(&PathBuf::from(&path));
            live.host.set_file_content(id, Arc::from(text.as_str()));
            live.host.set_root_file(&mut live.fs, id);
            live.root = id;

            // a panic of the FRESH analysis is an analysis-totality matter (not this property):
            // the scenario is dropped
            let fresh_res = std::panic::catch_unwind(std::panic::AssertUnwindSafe(|| {
                let fresh = RefHost::fresh(&disk, &PathBuf::from(&path), &text);
                let mut q = 0u64;
                let b = full_query_set(&fresh, &mut q);
                (fresh.workspace(), b, q)
            }));
            let Ok((fresh_ws, b, q)) = fresh_res else {
                crate::exec::take_last_panic();
                stats.discarded_fresh_panic += 1;
                return v;
            };
            stats.queries += q;
            let a = full_query_set(&live, &mut stats.queries);
            stats.comparisons += 1;
            let ws = fresh_ws;
            if ws.len() < prev_ws.len() {
                stats.workspace_shrank += 1;
            }
            for p in &ws {
                if !prev_ws.contains(p) {
                    stats.include_added += 1;
                }
            }
            for p in &prev_ws {
                if !ws.contains(p) {
                    stats.include_removed += 1;
                }
            }
            prev_ws = ws;
            if a != b {
                let keys: BTreeSet<&String> = a.keys().chain(b.keys()).collect();
                let mut first = String::new();
                let mut n = 0;
                for k in keys {
                    if a.get(k) != b.get(k) {
                        n += 1;
                        if first.is_empty() {
                            first = format!("{k}: long-lived {:?}, fresh {:?}", a.get(k), b.get(k));
                        }
                    }
                }
                let what = first.split(' ').next().unwrap_or("").to_string();
                v.push(Violation::new("C07", format!("history-dependent:{what}"), format!("after op {i} ({}) {n} queries differ; first: {first}", op.kind_name())));
                break;
            }
        }
        v
    }));
    match res {
        Ok(v) => v,
        Err(p) => {
            crate::exec::take_last_panic();
            vec![Violation::new("C07", "history-dependent:panic", format!("the long-lived host panicked where a fresh one answers: {}", panic_text(&p)))]
        }
    }
}
