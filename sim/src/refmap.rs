//! Independent reference for byte offset <-> LSP position (no repository code, no ropey).
//! Lines end at LF, CRLF or a lone CR; columns count UTF-16 code units (the LSP default).

#[derive(Clone, Debug)]
pub struct RefMap {
    /// byte offset at which each line starts
    line_starts: Vec<usize>,
    text: String,
}

impl RefMap {
    pub fn new(text: &str) -> Self {
        let b = text.as_bytes();
        let mut line_starts = vec![0usize];
        let mut i = 0;
        while i < b.len() {
            match b[i] {
                b'\n' => {
                    line_starts.push(i + 1);
                    i += 1;
                }
                b'\r' => {
                    if i + 1 < b.len() && b[i + 1] == b'\n' {
                        line_starts.push(i + 2);
                        i += 2;
                    } else {
                        line_starts.push(i + 1);
                        i += 1;
                    }
                }
                _ => i += 1,
            }
        }
        Self { line_starts, text: text.to_string() }
    }

    /// (zero-based line, UTF-16 column) of a byte offset on a char boundary.
    pub fn position(&self, offset: usize) -> (u32, u32) {
        let offset = offset.min(self.text.len());
        let line = match self.line_starts.binary_search(&offset) {
            Ok(l) => l,
            Err(l) => l - 1,
        };
        let start = self.line_starts[line];
        // an offset between CR and LF of a CRLF belongs to the line before the break
        let col: usize = self.text[start..offset].chars().map(|c| c.len_utf16()).sum();
        (line as u32, col as u32)
    }

    /// Byte offset of (line, UTF-16 column); None if the position does not exist in the text.
    pub fn offset_of(&self, line: u32, col: u32) -> Option<usize> {
        let start = *self.line_starts.get(line as usize)?;
        let end = self.line_starts.get(line as usize + 1).copied().unwrap_or(self.text.len());
        let mut units = 0u32;
        for (i, c) in self.text[start..end].char_indices() {
            if units == col {
                return Some(start + i);
            }
            if c == '\n' || c == '\r' {
                return None;
            }
            units += c.len_utf16() as u32;
        }
        if units == col {
            Some(end)
        } else {
            None
        }
    }

    pub fn line_count(&self) -> usize {
        self.line_starts.len()
    }
}

#[cfg(test)]
mod tests {
    use super::RefMap;

    #[test]
    fn basic() {
        let m = RefMap::new("ab\ncd\r\nef\rgh");
        assert_eq!(m.position(0), (0, 0));
        assert_eq!(m.position(2), (0, 2));
        assert_eq!(m.position(3), (1, 0));
        assert_eq!(m.position(7), (2, 0));
        assert_eq!(m.position(10), (3, 0));
        assert_eq!(m.position(12), (3, 2));
        let m = RefMap::new("é😀x\ny");
        assert_eq!(m.position(2), (0, 1));
        assert_eq!(m.position(6), (0, 3));
        assert_eq!(m.position(7), (0, 4));
        assert_eq!(m.position(8), (1, 0));
    }
}
