//! Oracles over the recorded history of one server-layer execution.

use std::collections::{BTreeMap, BTreeSet};
use std::path::PathBuf;

use serde_json::Value;

use crate::exec::{path_of_uri, ExecResult, Outcome};
use crate::model::{project_publish, project_response, RefHost};
use crate::scenario::{Op, ReqKind, Scenario};
use crate::world::FileState;

#[derive(Clone, Debug, PartialEq, Eq, serde::Serialize, serde::Deserialize)]
pub struct Violation {
    pub property: String,
    /// coarse class: the thing minimisation must preserve
    pub class: String,
    pub detail: String,
}

impl Violation {
    pub fn new(property: &str, class: impl Into<String>, detail: impl Into<String>) -> Self {
        Self { property: property.into(), class: class.into(), detail: detail.into() }
    }
}

/// The editor-side view after a number of notifications.
#[derive(Clone, Debug, Default)]
pub struct ModelState {
    pub open: BTreeMap<String, String>,
    /// the disk as it was when the last notification was sent (the server re-reads included
    /// files only while it processes a notification)
    pub seen_disk: BTreeMap<String, FileState>,
    pub root: Option<String>,
    /// only for identifying the known finding about symbolic links: model a server that serves
    /// the DISK text of the link's target even when the target is open in the editor
    pub link_bypass: bool,
}

impl ModelState {
    /// Readable files: disk overlaid by open buffers (the buffer wins, and counts even when
    /// the file is absent from the disk).
    pub fn overlay(&self) -> BTreeMap<PathBuf, String> {
        let mut m = BTreeMap::new();
        for (p, s) in &self.seen_disk {
            if let FileState::Text(t) = s {
                m.insert(PathBuf::from(p), t.clone());
            }
        }
        for (p, t) in &self.open {
            m.insert(PathBuf::from(p), t.clone());
        }
        // a symbolic link names the document it points to: the buffer if that one is open
        // (what the property demands), its text on disk otherwise
        for (p, s) in &self.seen_disk {
            if let FileState::Link(_) = s {
                let mut cur = s;
                let mut target = p.clone();
                let mut hops = 0;
                while let FileState::Link(t) = cur {
                    hops += 1;
                    target = crate::model::norm_path(t);
                    match self.seen_disk.get(&target) {
                        Some(next) if hops <= 8 => cur = next,
                        _ => break,
                    }
                }
                let text = match self.open.get(&target) {
                    Some(buffer) if !self.link_bypass => Some(buffer.clone()),
                    _ => match self.seen_disk.get(&target) {
                        Some(FileState::Text(t)) => Some(t.clone()),
                        _ => None,
                    },
                };
                if let Some(text) = text {
                    if !self.open.contains_key(p) {
                        m.insert(PathBuf::from(p), text);
                    }
                }
            }
        }
        m
    }

    pub fn fresh_host(&self) -> Option<RefHost> {
        let root = self.root.as_ref()?;
        let texts = self.overlay();
        let root_text = self.open.get(root)?.clone();
        let open: BTreeMap<PathBuf, String> = self.open.iter().map(|(p, t)| (PathBuf::from(p), t.clone())).collect();
        Some(RefHost::fresh_with_open(&texts, &open, &PathBuf::from(root), &root_text))
    }
}

pub struct Model {
    /// states[k]: after k open/change notifications
    pub states: Vec<ModelState>,
    /// racy[k]: the disk changed between the moment notification k was sent and the next
    /// quiescent point, so which on-disk text the server saw while processing it depends on
    /// the schedule; messages belonging to such a state are not judged
    pub racy: Vec<bool>,
    /// for a request sent after a didClose and before the next open/change: the state the
    /// workspace would have if the server took the close into account right away (the closed
    /// documents count with their on-disk text). Nothing fixes whether a server re-analyses at
    /// a close or at the next edit, so such a request may be answered for either state.
    pub after_close: BTreeMap<usize, ModelState>,
    /// for op i: number of notifications sent before it
    pub notifs_before_op: Vec<usize>,
    pub final_disk: BTreeMap<String, FileState>,
}

pub fn model_of(scenario: &Scenario) -> Model {
    let mut disk = scenario.disk0.clone();
    let mut cur = ModelState::default();
    let mut states = vec![cur.clone()];
    let mut notifs_before_op = Vec::new();
    let mut after_close: BTreeMap<usize, ModelState> = BTreeMap::new();
    let mut closed_since_notif = false;
    for (op_index, op) in scenario.ops.iter().enumerate() {
        notifs_before_op.push(states.len() - 1);
        if closed_since_notif && matches!(op, Op::Request { .. }) {
            let mut alt = cur.clone();
            alt.seen_disk = disk.clone();
            after_close.insert(op_index, alt);
        }
        match op {
            Op::Open { path, text } | Op::Change { path, text } | Op::Change2 { path, text, .. } => {
                cur.open.insert(path.clone(), text.clone());
                cur.seen_disk = disk.clone();
                cur.root = Some(path.clone());
                states.push(cur.clone());
                closed_since_notif = false;
            }
            Op::Close { path } => {
                // no re-analysis happens at a close; from the next notification on the file
                // on disk counts again for this document
                cur.open.remove(path);
                closed_since_notif = true;
            }
            Op::DiskWrite { path, text } => {
                disk.insert(path.clone(), FileState::Text(text.clone()));
            }
            Op::DiskRemove { path } => {
                disk.remove(path);
            }
            Op::DiskUnreadable { path } => {
                disk.insert(path.clone(), FileState::Unreadable);
            }
            _ => {}
        }
    }
    let mut racy = vec![false; states.len()];
    let mut pending: Vec<usize> = Vec::new(); // states whose window is still open
    let mut k = 0;
    for op in &scenario.ops {
        match op {
            Op::Open { .. } | Op::Change { .. } | Op::Change2 { .. } => {
                k += 1;
                pending.push(k);
            }
            Op::Sync => pending.clear(),
            Op::DiskWrite { path, .. } | Op::DiskRemove { path } | Op::DiskUnreadable { path } => {
                // a document that is open is served from its buffer: the disk is not consulted
                // for it, so only changes to files that are NOT open are racy
                for s in &pending {
                    if !states[*s].open.contains_key(path) {
                        racy[*s] = true;
                    }
                }
            }
            _ => {}
        }
    }
    Model { states, racy, after_close, notifs_before_op, final_disk: disk }
}

impl Model {
    /// The same session as seen by a server that reads through symbolic links to the disk.
    pub fn with_link_bypass(&self) -> Model {
        let mut m = Model {
            states: self.states.clone(),
            racy: self.racy.clone(),
            after_close: self.after_close.clone(),
            notifs_before_op: self.notifs_before_op.clone(),
            final_disk: self.final_disk.clone(),
        };
        for s in m.states.iter_mut() {
            s.link_bypass = true;
        }
        for s in m.after_close.values_mut() {
            s.link_bypass = true;
        }
        m
    }
}

fn responses(res: &ExecResult) -> BTreeMap<i64, Vec<&Value>> {
    let mut m: BTreeMap<i64, Vec<&Value>> = BTreeMap::new();
    for r in &res.history.received {
        if r.msg.get("method").is_none() {
            if let Some(id) = r.msg.get("id").and_then(|i| i.as_i64()) {
                m.entry(id).or_default().push(&r.msg);
            }
        }
    }
    m
}

/// (wire index, uri path, version, diagnostics json)
fn publishes(res: &ExecResult) -> Vec<(usize, String, Option<i64>, &Value)> {
    let mut v = Vec::new();
    for (i, r) in res.history.received.iter().enumerate() {
        if r.msg.get("method").and_then(|m| m.as_str()) == Some("textDocument/publishDiagnostics") {
            let p = &r.msg["params"];
            v.push((
                i,
                path_of_uri(p["uri"].as_str().unwrap_or("")),
                p["version"].as_i64(),
                &p["diagnostics"],
            ));
        }
    }
    v
}

fn marker_of(text: &str) -> Option<String> {
    let i = text.find("class V_")?;
    let rest = &text[i + 6..];
    let end = rest.find(';')?;
    Some(rest[..end].to_string())
}

// ------------------------------------------------------------------------------- C08

pub struct C08Verdict {
    pub violations: Vec<Violation>,
    /// matches the listed known finding (async-lsp main loop at the concurrency limit)
    pub known_klimit: bool,
    /// a panic that is not schedule-dependent as far as this run can tell (caller re-checks)
    pub panic: Option<String>,
}

pub fn outstanding_requests(res: &ExecResult) -> usize {
    let answered = responses(res);
    res.history.request_ops.keys().filter(|id| !answered.contains_key(id)).count()
}

pub fn check_c08(scenario: &Scenario, res: &ExecResult) -> C08Verdict {
    let mut v = Vec::new();
    let mut known_klimit = false;
    let mut panic = None;
    match &res.outcome {
        Outcome::Deadlock { blocked, locks } => {
            let outstanding = outstanding_requests(res);
            if locks.is_empty() && outstanding > scenario.knobs.concurrency && blocked.contains("pending future") {
                known_klimit = true;
            } else if locks.is_empty() {
                v.push(Violation::new("C08", "deadlock-no-lock", format!("{blocked}; outstanding requests={outstanding} limit={}", scenario.knobs.concurrency)));
            } else {
                v.push(Violation::new("C08", "deadlock", locks.join("; ")));
            }
        }
        Outcome::StepLimit => v.push(Violation::new("C08", "no-progress", "step limit reached")),
        Outcome::ReadBudget => v.push(Violation::new("C08", "no-progress", "disk read budget exhausted while handling a notification")),
        Outcome::Panic { message } => panic = Some(message.clone()),
        Outcome::Harness { .. } => {}
        Outcome::Completed => {
            let resp = responses(res);
            for (id, op) in &res.history.request_ops {
                let n = resp.get(id).map(|r| r.len()).unwrap_or(0);
                let what = match op {
                    Some(i) => format!("op {i} ({})", scenario.ops[*i].kind_name()),
                    None => "harness request".to_string(),
                };
                if n == 0 {
                    v.push(Violation::new("C08", "request-unanswered", format!("request id {id} [{what}] got no response")));
                } else if n > 1 {
                    v.push(Violation::new("C08", "duplicate-response", format!("request id {id} [{what}] got {n} responses")));
                }
            }
            if !res.history.shutdown_answered {
                v.push(Violation::new("C08", "request-unanswered", "shutdown not answered"));
            }
            // every notification processed: the closing outline shows the last text sent
            if let Some((id, path)) = &res.history.closing_symbol {
                let last_text = scenario.ops.iter().rev().find_map(|op| match op {
                    Op::Open { path: p, text } | Op::Change { path: p, text } | Op::Change2 { path: p, text, .. } if p == path => Some(text.clone()),
                    _ => None,
                });
                if let (Some(text), Some(r)) = (last_text, resp.get(id).and_then(|r| r.first())) {
                    if let Some(marker) = marker_of(&text) {
                        let names = project_response(ReqKind::DocumentSymbol, &r["result"], false).unwrap_or_default();
                        if !names.iter().any(|n| *n == format!("0:{marker}")) {
                            v.push(Violation::new(
                                "C08",
                                "notification-not-processed",
                                format!("closing outline of {path} lacks marker {marker} of the last text sent: {names:?}"),
                            ));
                        }
                    }
                }
            }
        }
    }
    C08Verdict { violations: v, known_klimit, panic }
}

// ------------------------------------------------------------------- message oracles

/// Lazily built fresh hosts per model state.
pub struct RefCache<'m> {
    model: &'m Model,
    hosts: BTreeMap<usize, Option<RefHost>>,
}

impl<'m> RefCache<'m> {
    pub fn new(model: &'m Model) -> Self {
        Self { model, hosts: BTreeMap::new() }
    }

    pub fn host(&mut self, state: usize) -> Option<&RefHost> {
        let model = self.model;
        self.hosts.entry(state).or_insert_with(|| model.states.get(state).and_then(|s| s.fresh_host())).as_ref()
    }
}

/// Every response to a scenario request and every publish, compared with a fresh analysis of
/// the model state it belongs to. `ranges`: compare ranges (C09) or contents only (C12).
pub fn check_messages(prop: &str, scenario: &Scenario, model: &Model, res: &ExecResult, ranges: bool, stats: &mut MsgStats) -> Vec<Violation> {
    let mut v = Vec::new();
    let mut cache = RefCache::new(model);
    let resp = responses(res);
    for (id, op) in &res.history.request_ops {
        let Some(i) = op else { continue };
        if res.history.cancelled.contains(id) {
            continue;
        }
        let Op::Request { kind, path, offset } = &scenario.ops[*i] else { continue };
        let Some(r) = resp.get(id).and_then(|r| r.first()) else { continue };
        let state = model.notifs_before_op[*i];
        if !model.states[state].open.contains_key(path) {
            // not a document the editor has open: not a valid request
            continue;
        }
        if model.racy[state] {
            stats.racy_skipped += 1;
            continue;
        }
        let Some(host) = cache.host(state) else { continue };
        if !host.workspace().contains(path) {
            // a document outside the current root's workspace: nothing is specified about it
            stats.outside_workspace_skipped += 1;
            continue;
        }
        let expected = host.expected(*kind, path, *offset, ranges);
        stats.responses_checked += 1;
        if r.get("error").is_some() {
            v.push(Violation::new(prop, format!("error-response:{kind:?}"), format!("op {i}: {}", r["error"])));
            continue;
        }
        let got = project_response(*kind, &r["result"], ranges);
        if expected.as_ref().map(|e| !e.is_empty()).unwrap_or(false) {
            stats.nonempty_responses += 1;
        }
        if cross_file(&expected, path) {
            stats.cross_file_locations += 1;
        }
        // C09 also by construction: the range of a definition, read against the text of the
        // file it names, is the very identifier the request was made on
        if ranges && *kind == ReqKind::Definition && !r["result"].is_null() {
            stats.definitions_read_back += 1;
            if let Some(msg) = definition_text_mismatch(model, state, path, *offset, &r["result"]) {
                v.push(Violation::new(prop, "definition-text-mismatch", format!("op {i} {path}@{offset}: {msg}")));
            }
        }
        // ... and every entry of an outline, read against the text of the document the outline
        // is for, is the very name it is labelled with (an outline has no URI per entry: each
        // range is in the requested document by definition)
        if ranges && *kind == ReqKind::DocumentSymbol && r["result"].is_array() {
            stats.outlines_read_back += 1;
            if let Some(msg) = outline_text_mismatch(model, state, path, &r["result"]) {
                v.push(Violation::new(prop, "outline-text-mismatch", format!("op {i} {path}: {msg}")));
            }
        }
        // ... every position of every answer exists in the text of the document it names, a
        // reference denotes the identifier the request was made on, a link denotes a string
        if model.after_close.get(i).is_some() {
            stats.after_close_requests += 1;
        }
        if ranges && !r["result"].is_null() {
            stats.shapes_checked += 1;
            let mut alts = vec![model.states[state].overlay()];
            if let Some(alt) = model.after_close.get(i) {
                alts.push(alt.overlay());
            }
            let msgs: Vec<Option<(&'static str, String)>> = alts.iter().map(|texts| wire_shape_mismatch(texts, *kind, path, *offset, &r["result"])).collect();
            if msgs.iter().all(|m| m.is_some()) {
                let (class, msg) = msgs[0].clone().unwrap();
                v.push(Violation::new(prop, class, format!("op {i} {kind:?} {path}@{offset}: {msg}")));
            }
        }
        // ... and a hint answered for a part of the document is one of the hints of the whole
        // document, at the same place (asking for less never moves a hint)
        if *kind == ReqKind::InlayHint && *offset != 0 && model.after_close.get(i).is_none() {
            stats.partial_hint_ranges += 1;
            let whole: BTreeSet<String> = host.expected(*kind, path, 0, ranges).unwrap_or_default().into_iter().collect();
            if let Some(stray) = got.as_ref().and_then(|g| g.iter().find(|h| !whole.contains(*h))) {
                v.push(Violation::new(prop, "partial-range-hint-not-in-whole", format!("op {i} {path}@{offset}: hint {stray:?} is not among the hints of the whole document")));
            }
        }
        if got != expected {
            if let Some(alt) = model.after_close.get(i) {
                // sent after a didClose: the answer may also be the one for the closed state
                let alt_host = if alt.open.contains_key(path) { alt.fresh_host() } else { None };
                if let Some(h) = alt_host {
                    if h.workspace().contains(path) && h.expected(*kind, path, *offset, ranges) == got {
                        stats.after_close_alt += 1;
                        continue;
                    }
                }
            }
            v.push(Violation::new(
                prop,
                format!("response-mismatch:{kind:?}"),
                format!("op {i} {kind:?} {path}@{offset} in state {state}: server {got:?} reference {expected:?}"),
            ));
        }
    }
    for (_, path, version, diags) in publishes(res) {
        let Some(ver) = version else {
            v.push(Violation::new(prop, "publish-without-version", path));
            continue;
        };
        let state = ver as usize + 1;
        if model.racy.get(state).copied().unwrap_or(false) {
            stats.racy_skipped += 1;
            continue;
        }
        let Some(host) = cache.host(state) else { continue };
        if ranges {
            if let Some(text) = model.states.get(state).and_then(|s| s.overlay().remove(&PathBuf::from(&path))) {
                let map = crate::refmap::RefMap::new(&text);
                for d in diags.as_array().map(|a| a.as_slice()).unwrap_or(&[]) {
                    let Some((a, b)) = span_of(&map, &text, &d["range"]) else {
                        v.push(Violation::new(prop, "position-outside-document", format!("published for {path} version {ver}: range {} does not exist in that text", d["range"])));
                        break;
                    };
                    // a "not found" message names what was not found: the range, read in the
                    // document the diagnostic is published for, must show that very name
                    let msg = d["message"].as_str().unwrap_or("");
                    let named = ["class not found: ", "symbol not found: ", "multiclass not found: ", "include file not found: "]
                        .iter()
                        .find_map(|p| msg.strip_prefix(p));
                    if let Some(name) = named {
                        stats.diagnostic_names_read_back += 1;
                        if !name.is_empty() && !text[a..b].contains(name) {
                            let got: String = text[a..b].chars().take(40).collect();
                            v.push(Violation::new(prop, "diagnostic-text-mismatch", format!("published for {path} version {ver}: {msg:?} at a range that denotes {got:?}")));
                            break;
                        }
                    }
                }
            }
        }
        let exp_all = host.diagnostics(ranges);
        let got = project_publish(diags, ranges);
        stats.publishes_checked += 1;
        match exp_all.get(&path) {
            Some(exp) => {
                if !exp.is_empty() {
                    stats.nonempty_publishes += 1;
                }
                if *exp != got {
                    v.push(Violation::new(
                        prop,
                        "publish-mismatch",
                        format!("{path} version {ver}: server {got:?} reference {exp:?}"),
                    ));
                }
            }
            None => {
                // a publish for a file outside that state's workspace must at least be empty
                if !got.is_empty() {
                    v.push(Violation::new(prop, "publish-for-foreign-file", format!("{path} version {ver}: {got:?}")));
                }
            }
        }
    }
    v
}

fn ident_at(text: &str, offset: usize) -> Option<&str> {
    let b = text.as_bytes();
    let is_id = |c: u8| c.is_ascii_alphanumeric() || c == b'_';
    if offset > b.len() {
        return None;
    }
    let mut s = offset;
    while s > 0 && is_id(b[s - 1]) {
        s -= 1;
    }
    let mut e = offset;
    while e < b.len() && is_id(b[e]) {
        e += 1;
    }
    if s == e {
        None
    } else {
        Some(&text[s..e])
    }
}

fn definition_text_mismatch(model: &Model, state: usize, path: &str, offset: u32, result: &Value) -> Option<String> {
    let st = model.states.get(state)?;
    let texts = st.overlay();
    let src = texts.get(&PathBuf::from(path))?;
    let wanted = ident_at(src, offset as usize)?;
    let loc = if result.is_array() { result.get(0)? } else { result };
    let target_path = crate::exec::path_of_uri(loc["uri"].as_str()?);
    let target = texts.get(&PathBuf::from(&target_path))?;
    let map = crate::refmap::RefMap::new(target);
    let r = &loc["range"];
    let a = map.offset_of(r["start"]["line"].as_u64()? as u32, r["start"]["character"].as_u64()? as u32);
    let b = map.offset_of(r["end"]["line"].as_u64()? as u32, r["end"]["character"].as_u64()? as u32);
    match (a, b) {
        (Some(a), Some(b)) if a <= b && target.is_char_boundary(a) && target.is_char_boundary(b) => {
            let got = &target[a..b];
            if got == wanted {
                None
            } else {
                Some(format!("the range sent denotes {got:?} in {target_path}, the identifier under the cursor is {wanted:?}"))
            }
        }
        _ => Some(format!("the range sent does not exist in the text of {target_path}")),
    }
}

/// Byte span of an LSP range in `text`, if both ends exist there (on character boundaries, in order).
fn span_of(map: &crate::refmap::RefMap, text: &str, r: &Value) -> Option<(usize, usize)> {
    let a = map.offset_of(r["start"]["line"].as_u64()? as u32, r["start"]["character"].as_u64()? as u32)?;
    let b = map.offset_of(r["end"]["line"].as_u64()? as u32, r["end"]["character"].as_u64()? as u32)?;
    (a <= b && text.is_char_boundary(a) && text.is_char_boundary(b)).then_some((a, b))
}

/// Shape checks that need no analysis at all: positions exist in the document they name;
/// every reference denotes the identifier under the cursor; every link denotes a string literal.
fn wire_shape_mismatch(texts: &BTreeMap<PathBuf, String>, kind: ReqKind, path: &str, offset: u32, result: &Value) -> Option<(&'static str, String)> {
    let own = texts.get(&PathBuf::from(path))?;
    let own_map = crate::refmap::RefMap::new(own);
    let outside = |what: String| Some(("position-outside-document", what));
    match kind {
        ReqKind::Definition | ReqKind::References => {
            let wanted = ident_at(own, offset as usize);
            let locs: Vec<&Value> = if let Some(a) = result.as_array() { a.iter().collect() } else { vec![result] };
            for loc in locs {
                let target_path = crate::exec::path_of_uri(loc["uri"].as_str()?);
                let Some(target) = texts.get(&PathBuf::from(&target_path)) else {
                    return outside(format!("a location names {target_path}, which is not a readable file of the session"));
                };
                let map = crate::refmap::RefMap::new(target);
                let Some((a, b)) = span_of(&map, target, &loc["range"]) else {
                    return outside(format!("range {} does not exist in {target_path}", loc["range"]));
                };
                if kind == ReqKind::References {
                    if let Some(w) = wanted {
                        if &target[a..b] != w {
                            let got: String = target[a..b].chars().take(40).collect();
                            return Some(("references-text-mismatch", format!("a reference in {target_path} denotes {got:?}, the identifier under the cursor is {w:?}")));
                        }
                    }
                }
            }
            None
        }
        ReqKind::DocumentLink => {
            for l in result.as_array()? {
                let Some((a, b)) = span_of(&own_map, own, &l["range"]) else {
                    return outside(format!("link range {} does not exist in {path}", l["range"]));
                };
                let t = &own[a..b];
                if !(t.len() >= 2 && t.starts_with('"') && t.ends_with('"')) {
                    let got: String = t.chars().take(40).collect();
                    return Some(("link-text-mismatch", format!("a link of {path} denotes {got:?}, not a string literal")));
                }
            }
            None
        }
        ReqKind::InlayHint => {
            for h in result.as_array()? {
                let p = &h["position"];
                if own_map.offset_of(p["line"].as_u64()? as u32, p["character"].as_u64()? as u32).is_none() {
                    return outside(format!("hint position {p} does not exist in {path}"));
                }
            }
            None
        }
        ReqKind::FoldingRange => {
            for f in result.as_array()? {
                let (st, en) = (f["startLine"].as_u64()?, f["endLine"].as_u64()?);
                if st > en || en as usize >= own_map.line_count() {
                    return outside(format!("folding range {st}..{en} does not exist in {path} ({} lines)", own_map.line_count()));
                }
            }
            None
        }
        _ => None,
    }
}

/// Every entry of a documentSymbol answer: its range exists in the document's text and denotes
/// the entry's name (entries named `anonymous_<n>` cover a whole statement: existence only).
fn outline_text_mismatch(model: &Model, state: usize, path: &str, result: &Value) -> Option<String> {
    let st = model.states.get(state)?;
    let texts = st.overlay();
    let src = texts.get(&PathBuf::from(path))?;
    let map = crate::refmap::RefMap::new(src);
    fn walk(map: &crate::refmap::RefMap, src: &str, sym: &Value) -> Option<String> {
        let name = sym["name"].as_str()?;
        for key in ["range", "selectionRange"] {
            let r = &sym[key];
            let a = map.offset_of(r["start"]["line"].as_u64()? as u32, r["start"]["character"].as_u64()? as u32);
            let b = map.offset_of(r["end"]["line"].as_u64()? as u32, r["end"]["character"].as_u64()? as u32);
            match (a, b) {
                (Some(a), Some(b)) if a <= b && src.is_char_boundary(a) && src.is_char_boundary(b) => {
                    let anonymous = name.strip_prefix("anonymous_").map(|n| !n.is_empty() && n.bytes().all(|c| c.is_ascii_digit())).unwrap_or(false);
                    if !anonymous && &src[a..b] != name {
                        let got: String = src[a..b].chars().take(40).collect();
                        return Some(format!("the {key} of entry {name:?} denotes {got:?} in this document"));
                    }
                }
                _ => return Some(format!("the {key} of entry {name:?} does not exist in this document")),
            }
        }
        for c in sym["children"].as_array().map(|v| v.as_slice()).unwrap_or(&[]) {
            if let Some(m) = walk(map, src, c) {
                return Some(m);
            }
        }
        None
    }
    for sym in result.as_array()? {
        if let Some(m) = walk(&map, src, sym) {
            return Some(m);
        }
    }
    None
}

fn cross_file(expected: &Option<Vec<String>>, path: &str) -> bool {
    expected
        .as_ref()
        .map(|e| e.iter().any(|l| l.starts_with('/') && !l.starts_with(&format!("{path}@")) && l != path))
        .unwrap_or(false)
}

#[derive(Default, Clone, Debug)]
pub struct MsgStats {
    pub responses_checked: u64,
    pub outside_workspace_skipped: u64,
    pub racy_skipped: u64,
    pub after_close_alt: u64,
    pub nonempty_responses: u64,
    pub cross_file_locations: u64,
    pub publishes_checked: u64,
    pub nonempty_publishes: u64,
    pub uris_converged: u64,
    pub left_workspace: u64,
    pub cleared_after_fix: u64,
    /// by-construction oracles (no reference analysis involved): how often each had something to judge
    pub outlines_read_back: u64,
    pub definitions_read_back: u64,
    pub shapes_checked: u64,
    pub partial_hint_ranges: u64,
    pub diagnostic_names_read_back: u64,
    pub after_close_requests: u64,
}

// ------------------------------------------------------------------------------- C11

/// At quiescence: the last publish per URI equals the diagnostics of the final state (ranges,
/// through the independent mapper, and messages, as a multiset); versions per URI never
/// decrease.
pub fn check_c11(model: &Model, res: &ExecResult, stats: &mut MsgStats) -> Vec<Violation> {
    let mut v = Vec::new();
    let pubs = publishes(res);
    let mut last: BTreeMap<String, (i64, Vec<String>)> = BTreeMap::new();
    let mut ever_nonempty: BTreeSet<String> = BTreeSet::new();
    for (_, path, version, diags) in &pubs {
        let ver = version.unwrap_or(-1);
        if let Some((prev, _)) = last.get(path) {
            if ver < *prev {
                v.push(Violation::new("C11", "version-decreased", format!("{path}: version {ver} published after {prev}")));
            }
        }
        let got = project_publish(diags, true);
        if !got.is_empty() {
            ever_nonempty.insert(path.clone());
        }
        last.insert(path.clone(), (ver, got));
    }
    let final_state = model.states.len() - 1;
    let Some(host) = model.states[final_state].fresh_host() else { return v };
    let expected = host.diagnostics(true);
    let uris: BTreeSet<&String> = last.keys().chain(expected.keys()).collect();
    for uri in uris {
        let exp = expected.get(uri).cloned().unwrap_or_default();
        let in_ws = expected.contains_key(uri);
        match last.get(uri) {
            Some((ver, got)) => {
                if *got != exp {
                    let class = if !in_ws { "stale-after-leave" } else if exp.is_empty() { "stale-after-fix" } else { "final-mismatch" };
                    v.push(Violation::new(
                        "C11",
                        class,
                        format!("{uri}: last published (version {ver}) {got:?}, final state has {exp:?} (in workspace: {in_ws})"),
                    ));
                } else {
                    stats.uris_converged += 1;
                    if !in_ws {
                        stats.left_workspace += 1;
                    }
                    if exp.is_empty() && ever_nonempty.contains(uri) {
                        stats.cleared_after_fix += 1;
                    }
                }
            }
            None => {
                if !exp.is_empty() {
                    v.push(Violation::new("C11", "never-published", format!("{uri}: final state has {exp:?} but nothing was published")));
                }
            }
        }
    }
    v
}
