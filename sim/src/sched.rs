//! Schedulers: every interleaving decision of a run is taken here, from the run's seed or
//! from a recorded plan. Both record the decisions actually taken.

use std::sync::{Arc, Mutex};

use shuttle::scheduler::{Schedule, Scheduler, Task, TaskId};

use crate::rng::Rng;

#[derive(Clone, Debug, PartialEq, Eq, serde::Serialize, serde::Deserialize)]
pub enum Strategy {
    /// uniform among runnable tasks at every point
    Random,
    /// keep the running task; preempt with probability 1/den
    Sticky { den: u32 },
    /// PCT-like: random task priorities, `depth` priority change points within `est_len` steps
    Pct { depth: u32, est_len: u32 },
}

/// What happened at each scheduling decision.
#[derive(Clone, Debug, Default)]
pub struct Trace {
    /// chosen task per decision
    pub decisions: Vec<u16>,
    /// decisions at which the default policy (continue current, else lowest id) would have
    /// chosen differently
    pub non_default: Vec<u32>,
    /// decisions at which the running task was runnable but another one was chosen
    pub preemptions: u32,
    /// a plan entry named a task that was not runnable (replay only)
    pub diverged: bool,
}

pub type SharedTrace = Arc<Mutex<Trace>>;

fn runnable_ids(tasks: &[&Task]) -> Vec<usize> {
    // tasks blocked in `park` are offered by shuttle as "spuriously wakeable"; never pick those
    let mut v: Vec<usize> = tasks.iter().filter(|t| t.runnable()).map(|t| usize::from(t.id())).collect();
    if v.is_empty() {
        v = tasks.iter().map(|t| usize::from(t.id())).collect();
    }
    v.sort_unstable();
    v
}

fn default_choice(runnable: &[usize], current: Option<usize>) -> usize {
    match current {
        Some(c) if runnable.contains(&c) => c,
        _ => runnable[0],
    }
}

fn record(trace: &SharedTrace, runnable: &[usize], current: Option<usize>, chosen: usize) {
    let mut t = trace.lock().unwrap();
    let idx = t.decisions.len() as u32;
    if default_choice(runnable, current) != chosen {
        t.non_default.push(idx);
    }
    if let Some(c) = current {
        if c != chosen && runnable.contains(&c) {
            t.preemptions += 1;
        }
    }
    t.decisions.push(chosen as u16);
}

pub struct SeedScheduler {
    rng: Rng,
    strategy: Strategy,
    trace: SharedTrace,
    started: bool,
    prio: Vec<u64>,
    change_points: Vec<u32>,
    step: u32,
}

impl SeedScheduler {
    pub fn new(seed: u64, strategy: Strategy) -> (Self, SharedTrace) {
        let trace: SharedTrace = Default::default();
        let mut rng = Rng::new(seed);
        let mut change_points = Vec::new();
        if let Strategy::Pct { depth, est_len } = &strategy {
            for _ in 0..*depth {
                change_points.push(rng.below(*est_len as usize) as u32);
            }
        }
        (
            Self { rng, strategy, trace: trace.clone(), started: false, prio: Vec::new(), change_points, step: 0 },
            trace,
        )
    }

    fn prio_of(&mut self, task: usize) -> u64 {
        while self.prio.len() <= task {
            // high random priorities; change points hand out low ones
            let p = 1_000 + self.rng.next_u64() % 1_000_000;
            self.prio.push(p);
        }
        self.prio[task]
    }
}

impl Scheduler for SeedScheduler {
    fn new_execution(&mut self) -> Option<Schedule> {
        if self.started {
            None
        } else {
            self.started = true;
            Some(Schedule::new(0))
        }
    }

    fn next_task(&mut self, tasks: &[&Task], current: Option<TaskId>, _is_yielding: bool) -> Option<TaskId> {
        let runnable = runnable_ids(tasks);
        let current = current.map(usize::from);
        let chosen = match self.strategy.clone() {
            Strategy::Random => *self.rng.pick(&runnable),
            Strategy::Sticky { den } => match current {
                Some(c) if runnable.contains(&c) && !self.rng.chance(1, den as u64) => c,
                _ => *self.rng.pick(&runnable),
            },
            Strategy::Pct { .. } => {
                if let Some(c) = current {
                    if let Some(i) = self.change_points.iter().position(|s| *s == self.step) {
                        self.prio_of(c);
                        self.prio[c] = i as u64; // lower than every initial priority
                    }
                }
                let mut best = runnable[0];
                let mut best_p = self.prio_of(best);
                for &t in &runnable[1..] {
                    let p = self.prio_of(t);
                    if p > best_p {
                        best = t;
                        best_p = p;
                    }
                }
                best
            }
        };
        self.step += 1;
        record(&self.trace, &runnable, current, chosen);
        Some(TaskId::from(chosen))
    }

    fn next_u64(&mut self) -> u64 {
        // never used by the workload: every workload choice is made before the execution
        0
    }
}

/// Follows a plan. `plan[i] = Some(t)`: run task `t` at decision `i`; `None` or past the end:
/// default policy (continue the running task if it can run, else the lowest runnable id).
pub struct ReplayScheduler {
    plan: Vec<Option<u16>>,
    trace: SharedTrace,
    started: bool,
    step: usize,
}

impl ReplayScheduler {
    pub fn new(plan: Vec<Option<u16>>) -> (Self, SharedTrace) {
        let trace: SharedTrace = Default::default();
        (Self { plan, trace: trace.clone(), started: false, step: 0 }, trace)
    }
}

impl Scheduler for ReplayScheduler {
    fn new_execution(&mut self) -> Option<Schedule> {
        if self.started {
            None
        } else {
            self.started = true;
            Some(Schedule::new(0))
        }
    }

    fn next_task(&mut self, tasks: &[&Task], current: Option<TaskId>, _is_yielding: bool) -> Option<TaskId> {
        let runnable = runnable_ids(tasks);
        let current = current.map(usize::from);
        let chosen = match self.plan.get(self.step).copied().flatten() {
            Some(t) if runnable.contains(&(t as usize)) => t as usize,
            Some(_) => {
                self.trace.lock().unwrap().diverged = true;
                default_choice(&runnable, current)
            }
            None => default_choice(&runnable, current),
        };
        self.step += 1;
        record(&self.trace, &runnable, current, chosen);
        Some(TaskId::from(chosen))
    }

    fn next_u64(&mut self) -> u64 {
        0
    }
}

/// Drops the tail of a decision list that the default policy reproduces anyway.
pub fn compress_plan(decisions: &[u16], non_default: &[u32]) -> Vec<Option<u16>> {
    let keep = non_default.iter().max().map(|m| *m as usize + 1).unwrap_or(0);
    decisions[..keep.min(decisions.len())].iter().map(|d| Some(*d)).collect()
}
